import GitBugModel.Model.Bug
import GitBugModel.Lemmas.CompileRepeat
/-!
# C10 — a bug's state is exactly the documented interpretation of its operations

All theorems hold for every interleaving function `comb` and every operation list; the
`fold` theorems are by induction over the list (no bound on its length).
-/
namespace GitBugModel.Props.C10
open GitBugModel.Bug

variable (comb : String → String → String)

/-! ## incremental = from scratch; compiling is repeatable -/

theorem firstId_append (ops : List SOp) (o : SOp) (h : ops ≠ []) : firstId (ops ++ [o]) = firstId ops := by
  cases ops with
  | nil => exact absurd rfl h
  | cons a t => rfl

/-- `compile_append`: the snapshot the cache maintains by applying each appended operation to
the previous snapshot (`withSnapshot.Append`) equals a compilation from scratch. -/
theorem compile_append (ops : List SOp) (o : SOp) (h : ops ≠ []) :
    compile comb (ops ++ [o]) = step comb (compile comb ops) o := by
  unfold compile
  rw [firstId_append ops o h, List.foldl_append]
  rfl

/-- Any number of appended operations. -/
theorem compile_append_list (ops more : List SOp) (h : ops ≠ []) :
    compile comb (ops ++ more) = more.foldl (step comb) (compile comb ops) := by
  unfold compile
  have : firstId (ops ++ more) = firstId ops := by
    cases ops with
    | nil => exact absurd rfl h
    | cons a t => rfl
  rw [this, List.foldl_append]

/-! ## one-step facts (`step_*`) -/

theorem apply_id_of_not_create (s : Snapshot) (o : Op) (h : o.typeNum ≠ 1) : (apply comb s o).id = s.id := by
  cases o <;> simp [Op.typeNum] at h <;> simp only [apply]
  case editComment b target message files =>
    split <;> first | rfl | (split <;> rfl)

theorem step_id_of_not_create (s : Snapshot) (o : SOp) (h : o.op.typeNum ≠ 1) : (step comb s o).id = s.id := by
  simp only [step]; exact apply_id_of_not_create comb s o.op h

/-- Title: a set-title operation sets it, every other non-create operation leaves it. -/
theorem step_title (s : Snapshot) (o : SOp) (h : o.op.typeNum ≠ 1) :
    (step comb s o).title = match o.op with | .setTitle _ t _ => t | _ => s.title := by
  obtain ⟨op, e⟩ := o
  cases op <;> simp [Op.typeNum] at h <;> simp only [step, apply]
  case editComment b target message files => split <;> first | rfl | (split <;> rfl)

/-- Status: a set-status operation sets it, every other non-create operation leaves it. -/
theorem step_status (s : Snapshot) (o : SOp) (h : o.op.typeNum ≠ 1) :
    (step comb s o).status = match o.op with | .setStatus _ st => st | _ => s.status := by
  obtain ⟨op, e⟩ := o
  cases op <;> simp [Op.typeNum] at h <;> simp only [step, apply]
  case editComment b target message files => split <;> first | rfl | (split <;> rfl)

def titleSpec (t0 : String) (ops : List SOp) : String :=
  ops.foldl (fun t o => match o.op with | .setTitle _ t' _ => t' | _ => t) t0

def statusSpec (s0 : Nat) (ops : List SOp) : Nat :=
  ops.foldl (fun t o => match o.op with | .setStatus _ st => st | _ => t) s0

theorem fold_title (rest : List SOp) (hr : ∀ o ∈ rest, o.op.typeNum ≠ 1) :
    ∀ s : Snapshot, (rest.foldl (step comb) s).title = titleSpec s.title rest := by
  induction rest with
  | nil => intro s; rfl
  | cons o t ih =>
    intro s
    simp only [List.foldl_cons, titleSpec]
    rw [ih (fun o' ho' => hr o' (List.mem_cons_of_mem _ ho')), step_title comb s o (hr o List.mem_cons_self)]
    rfl

theorem fold_status (rest : List SOp) (hr : ∀ o ∈ rest, o.op.typeNum ≠ 1) :
    ∀ s : Snapshot, (rest.foldl (step comb) s).status = statusSpec s.status rest := by
  induction rest with
  | nil => intro s; rfl
  | cons o t ih =>
    intro s
    simp only [List.foldl_cons, statusSpec]
    rw [ih (fun o' ho' => hr o' (List.mem_cons_of_mem _ ho')), step_status comb s o (hr o List.mem_cons_self)]
    rfl

/-- `title_spec`: for a valid bug (one create, first) the compiled title is that of the last
title change, or of creation. -/
theorem title_spec (b : Base) (title message : String) (files : List String) (e : List (String × String))
    (rest : List SOp) (hr : ∀ o ∈ rest, o.op.typeNum ≠ 1) :
    (compile comb (⟨.create b title message files, e⟩ :: rest)).title = titleSpec title rest := by
  unfold compile
  simp only [List.foldl_cons]
  rw [fold_title comb rest hr]
  simp [step, apply, firstId, Op.base]

/-- `status_spec`: the compiled status is that of the last status change, or open. -/
theorem status_spec (b : Base) (title message : String) (files : List String) (e : List (String × String))
    (rest : List SOp) (hr : ∀ o ∈ rest, o.op.typeNum ≠ 1) :
    (compile comb (⟨.create b title message files, e⟩ :: rest)).status = statusSpec 1 rest := by
  unfold compile
  simp only [List.foldl_cons]
  rw [fold_status comb rest hr]
  simp [step, apply, firstId, Op.base]

/-! ## labels: a duplicate-free sorted set; additions then removals -/

theorem mem_insertSorted (x y : String) (l : List String) : y ∈ insertSorted x l ↔ y = x ∨ y ∈ l := by
  induction l with
  | nil => simp [insertSorted]
  | cons a t ih =>
    unfold insertSorted
    split
    · simp
    · simp [ih]; constructor
      · rintro (h | h | h) <;> simp [h]
      · rintro (h | h | h) <;> simp [h]

theorem mem_sortLabels (y : String) (l : List String) : y ∈ sortLabels l ↔ y ∈ l := by
  induction l with
  | nil => simp [sortLabels]
  | cons a t ih =>
    simp only [sortLabels, List.foldr_cons] at ih ⊢
    rw [mem_insertSorted, ih]; simp

theorem insertSorted_sorted (x : String) (l : List String) (hs : l.Pairwise (· < ·)) (hx : x ∉ l) :
    (insertSorted x l).Pairwise (· < ·) := by
  induction l with
  | nil => simp [insertSorted]
  | cons a t ih =>
    rw [List.pairwise_cons] at hs
    unfold insertSorted
    split
    · rename_i hlt
      rw [List.pairwise_cons]
      refine ⟨?_, List.pairwise_cons.mpr hs⟩
      intro y hy
      cases hy with
      | head => exact hlt
      | tail _ h => exact String.lt_trans hlt (hs.1 y h)
    · rename_i hnlt
      have hxa : x ≠ a := fun h => hx (h ▸ List.mem_cons_self)
      have hax : a < x := by
        have hle : a ≤ x := String.not_lt.mp hnlt
        cases String.le_total x a with
        | inl h => exact absurd (String.le_antisymm h hle) hxa
        | inr _ =>
          rcases Decidable.em (a < x) with h | h
          · exact h
          · exact absurd (String.le_antisymm (String.not_lt.mp h) hle) hxa
      rw [List.pairwise_cons]
      refine ⟨?_, ih hs.2 (fun h => hx (List.mem_cons_of_mem _ h))⟩
      intro y hy
      rw [mem_insertSorted] at hy
      cases hy with
      | inl h => exact h ▸ hax
      | inr h => exact hs.1 y h

theorem sortLabels_sorted (l : List String) (hn : l.Nodup) : (sortLabels l).Pairwise (· < ·) := by
  induction l with
  | nil => simp [sortLabels]
  | cons a t ih =>
    rw [List.nodup_cons] at hn
    simp only [sortLabels, List.foldr_cons]
    apply insertSorted_sorted
    · exact ih hn.2
    · intro h; exact hn.1 ((mem_sortLabels a t).mp h)

theorem addOnce_nodup (l : List String) (x : String) (h : l.Nodup) : (addOnce l x).Nodup := by
  unfold addOnce
  split
  · exact h
  · rename_i hc
    rw [List.nodup_append]
    refine ⟨h, by simp, ?_⟩
    intro a ha b hb
    simp at hb; subst hb
    intro hab; subst hab
    simp at hc; exact hc ha

theorem mem_addOnce (l : List String) (x y : String) : y ∈ addOnce l x ↔ y ∈ l ∨ y = x := by
  unfold addOnce
  split
  · rename_i hc; simp at hc
    constructor
    · intro h; exact Or.inl h
    · rintro (h | h)
      · exact h
      · exact h ▸ hc
  · simp

theorem foldl_addOnce_nodup (added : List String) : ∀ l : List String, l.Nodup → (added.foldl addOnce l).Nodup := by
  induction added with
  | nil => intro l h; exact h
  | cons a t ih => intro l h; exact ih _ (addOnce_nodup l a h)

theorem mem_foldl_addOnce (added : List String) (y : String) :
    ∀ l : List String, y ∈ added.foldl addOnce l ↔ y ∈ l ∨ y ∈ added := by
  induction added with
  | nil => intro l; simp
  | cons a t ih =>
    intro l
    simp only [List.foldl_cons, ih, mem_addOnce, List.mem_cons]
    constructor
    · rintro ((h | h) | h) <;> simp [h]
    · rintro (h | h | h) <;> simp [h]

theorem pairwise_lt_nodup (l : List String) (h : l.Pairwise (· < ·)) : l.Nodup := by
  apply List.Pairwise.imp _ h
  intro a b hab; exact String.ne_of_lt hab

/-- `labels_sorted_nodup`: after every operation the labels are strictly sorted (hence
duplicate-free), whatever duplicates or absent labels the operation mentions. -/
theorem step_labels_sorted (s : Snapshot) (o : SOp) (h : s.labels.Pairwise (· < ·)) :
    (step comb s o).labels.Pairwise (· < ·) := by
  obtain ⟨op, e⟩ := o
  cases op <;> simp only [step, apply]
  case create b t m f => split <;> exact h
  case editComment b target message files => split <;> first | exact h | (split <;> exact h)
  case labelChange b added removed =>
    apply sortLabels_sorted
    exact List.Nodup.sublist List.filter_sublist (foldl_addOnce_nodup added s.labels (pairwise_lt_nodup _ h))
  all_goals exact h

theorem labels_sorted_nodup (ops : List SOp) : (compile comb ops).labels.Pairwise (· < ·) := by
  unfold compile
  generalize hs : ({ id := firstId ops } : Snapshot) = s0
  have h0 : s0.labels.Pairwise (· < ·) := by subst hs; simp
  clear hs
  induction ops generalizing s0 with
  | nil => exact h0
  | cons o t ih => exact ih _ (step_labels_sorted comb s0 o h0)

/-- `labels_spec`: a label is present after a change iff it was present or is added, and is
not removed (additions first, then removals). -/
theorem labels_spec (s : Snapshot) (b : Base) (added removed : List String) (e : List (String × String)) (l : String) :
    l ∈ (step comb s ⟨.labelChange b added removed, e⟩).labels ↔ (l ∈ s.labels ∨ l ∈ added) ∧ l ∉ removed := by
  simp only [step, apply, mem_sortLabels, List.mem_filter, mem_foldl_addOnce]
  simp

/-- operations other than a label change leave the labels alone -/
theorem step_labels_other (s : Snapshot) (o : SOp) (h : o.op.typeNum ≠ 5) : (step comb s o).labels = s.labels := by
  obtain ⟨op, e⟩ := o
  cases op <;> simp [Op.typeNum] at h <;> simp only [step, apply]
  case create b t m f => split <;> rfl
  case editComment b target message files => split <;> first | rfl | (split <;> rfl)

/-! ## comments -/

/-- one comment per create / add-comment -/
theorem step_comments_length (s : Snapshot) (o : SOp) (h : o.op.typeNum ≠ 1) :
    (step comb s o).comments.length = s.comments.length + (if o.op.typeNum = 3 then 1 else 0) := by
  obtain ⟨op, e⟩ := o
  cases op <;> simp [Op.typeNum] at h <;> simp only [step, apply, Op.typeNum]
  case addComment b m f => simp
  case editComment b target message files =>
    have : ∀ cs : List Comment, (editComments cs (comb s.id target) message files).length = cs.length := by
      intro cs; induction cs with
      | nil => rfl
      | cons c t ih => unfold editComments; split <;> simp [ih]
    split
    · simp
    · split <;> simp [this]
    · split <;> simp [this]
    · simp
  all_goals simp

theorem editComments_noop (cs : List Comment) (cid m : String) (f : List String)
    (h : ∀ c ∈ cs, c.combinedId ≠ cid) : editComments cs cid m f = cs := by
  induction cs with
  | nil => rfl
  | cons c t ih =>
    unfold editComments
    have hc := h c List.mem_cons_self
    simp only [beq_iff_eq, hc, if_false]
    rw [ih (fun c' hc' => h c' (List.mem_cons_of_mem _ hc'))]

/-- `edit_unknown_noop`: an edit whose target designates no timeline item changes nothing
(the operation is only recorded). -/
theorem edit_unknown_noop (s : Snapshot) (b : Base) (target message : String) (files : List String)
    (h : ∀ it ∈ s.timeline, it.combinedId ≠ comb s.id target) :
    apply comb s (.editComment b target message files) = s := by
  have : findItem s.timeline (comb s.id target) = none := by
    unfold findItem
    rw [List.find?_eq_none]
    intro it hit
    simp [h it hit]
  simp only [apply, this]

/-- An edit whose target is a non-comment item (a title, status or label change) changes nothing. -/
theorem edit_noncomment_noop (s : Snapshot) (b : Base) (target message : String) (files : List String)
    (it : TItem) (hf : findItem s.timeline (comb s.id target) = some it)
    (hnc : ∀ c, it ≠ .create c ∧ it ≠ .addComment c) :
    apply comb s (.editComment b target message files) = s := by
  simp only [apply, hf]
  cases it with
  | create c => exact absurd rfl (hnc c).1
  | addComment c => exact absurd rfl (hnc c).2
  | _ => rfl

/-- An edit only applies to the comment created by exactly its target operation: when the
comment designated by the combined id was created by another operation (the combined id keeps
only 14 characters of the target), nothing changes. -/
theorem edit_wrong_target_noop (s : Snapshot) (b : Base) (target message : String) (files : List String)
    (c : Comment) (hc : s.comments.find? (fun c => c.combinedId == comb s.id target) = some c)
    (hne : c.targetId ≠ target) :
    apply comb s (.editComment b target message files) = s := by
  have hm : targetMismatch s.comments (comb s.id target) target = true := by
    simp [targetMismatch, hc, hne]
  simp only [apply]
  split <;> first | rfl | simp [hm]

/-- `comments_spec` (edit): the first comment designated by the target takes the edit's
message and files; every other comment is unchanged. -/
theorem editComments_spec (cs : List Comment) (cid m : String) (f : List String) (pre post : List Comment)
    (c : Comment) (hcs : cs = pre ++ c :: post) (hpre : ∀ c' ∈ pre, c'.combinedId ≠ cid) (hc : c.combinedId = cid) :
    editComments cs cid m f = pre ++ { c with message := m, files := f } :: post := by
  subst hcs
  induction pre with
  | nil => simp [editComments, hc]
  | cons a t ih =>
    have ha := hpre a List.mem_cons_self
    simp only [List.cons_append, editComments, beq_iff_eq, ha, if_false]
    rw [ih (fun c' hc' => hpre c' (List.mem_cons_of_mem _ hc'))]

/-- An edit never touches the id, author, target or position of any comment. -/
theorem editComments_keeps (cs : List Comment) (cid m : String) (f : List String) :
    (editComments cs cid m f).map (fun c => (c.combinedId, c.targetId, c.author, c.time))
      = cs.map (fun c => (c.combinedId, c.targetId, c.author, c.time)) := by
  induction cs with
  | nil => rfl
  | cons c t ih => unfold editComments; split <;> simp [ih]

/-! ## actors and participants list each author once -/

theorem step_actors_nodup (s : Snapshot) (o : SOp) (h : s.actors.Nodup) : (step comb s o).actors.Nodup := by
  obtain ⟨op, e⟩ := o
  cases op <;> simp only [step, apply]
  case create b t m f => split; exact h; exact addOnce_nodup _ _ h
  case editComment b target message files =>
    split <;> first | exact h | (split <;> first | exact h | exact addOnce_nodup _ _ h)
  case noop b => exact h
  case setMetadata b t m => exact h
  all_goals exact addOnce_nodup _ _ h

theorem step_participants_nodup (s : Snapshot) (o : SOp) (h : s.participants.Nodup) :
    (step comb s o).participants.Nodup := by
  obtain ⟨op, e⟩ := o
  cases op <;> simp only [step, apply]
  case create b t m f => split; exact h; exact addOnce_nodup _ _ h
  case editComment b target message files => split <;> first | exact h | (split <;> exact h)
  case addComment b m f => exact addOnce_nodup _ _ h
  all_goals exact h

theorem actors_participants_nodup (ops : List SOp) :
    (compile comb ops).actors.Nodup ∧ (compile comb ops).participants.Nodup := by
  unfold compile
  generalize hs : ({ id := firstId ops } : Snapshot) = s0
  have h0 : s0.actors.Nodup ∧ s0.participants.Nodup := by subst hs; simp
  clear hs
  induction ops generalizing s0 with
  | nil => exact h0
  | cons o t ih => exact ih _ ⟨step_actors_nodup comb s0 o h0.1, step_participants_nodup comb s0 o h0.2⟩

/-! ## timeline: one entry per state-changing operation -/

def changesState (o : Op) : Bool :=
  match o with
  | .addComment .. | .setTitle .. | .setStatus .. | .labelChange .. => true
  | _ => false

theorem editTimeline_length (tl : List TItem) (cid m : String) (f : List String) (t : Int) :
    (editTimeline tl cid m f t).length = tl.length := by
  induction tl with
  | nil => rfl
  | cons a r ih => unfold editTimeline; split <;> simp [ih]

theorem step_timeline_length (s : Snapshot) (o : SOp) (h : o.op.typeNum ≠ 1) :
    (step comb s o).timeline.length = s.timeline.length + (if changesState o.op then 1 else 0) := by
  obtain ⟨op, e⟩ := o
  cases op <;> simp [Op.typeNum] at h <;> simp only [step, apply, changesState]
  case editComment b target message files =>
    split
    · simp
    · split <;> simp [editTimeline_length]
    · split <;> simp [editTimeline_length]
    · simp
  all_goals simp

theorem fold_timeline_length (rest : List SOp) (hr : ∀ o ∈ rest, o.op.typeNum ≠ 1) :
    ∀ s : Snapshot, (rest.foldl (step comb) s).timeline.length
      = s.timeline.length + (rest.filter (fun o => changesState o.op)).length := by
  induction rest with
  | nil => intro s; simp
  | cons o t ih =>
    intro s
    simp only [List.foldl_cons]
    rw [ih (fun o' ho' => hr o' (List.mem_cons_of_mem _ ho')), step_timeline_length comb s o (hr o List.mem_cons_self)]
    rw [List.filter_cons]
    split <;> simp <;> omega

/-- `timeline_spec`: the timeline of a valid bug has one entry for the creation and one per
later comment, title, status or label operation; edits, no-ops and metadata add none. -/
theorem timeline_spec (b : Base) (title message : String) (files : List String) (e : List (String × String))
    (rest : List SOp) (hr : ∀ o ∈ rest, o.op.typeNum ≠ 1) :
    (compile comb (⟨.create b title message files, e⟩ :: rest)).timeline.length
      = 1 + (rest.filter (fun o => changesState o.op)).length := by
  unfold compile
  simp only [List.foldl_cons]
  rw [fold_timeline_length comb rest hr]
  simp [step, apply, firstId, Op.base]

/-- one comment per create / add-comment operation -/
theorem fold_comments_length (rest : List SOp) (hr : ∀ o ∈ rest, o.op.typeNum ≠ 1) :
    ∀ s : Snapshot, (rest.foldl (step comb) s).comments.length
      = s.comments.length + (rest.filter (fun o => o.op.typeNum == 3)).length := by
  induction rest with
  | nil => intro s; simp
  | cons o t ih =>
    intro s
    simp only [List.foldl_cons]
    rw [ih (fun o' ho' => hr o' (List.mem_cons_of_mem _ ho')), step_comments_length comb s o (hr o List.mem_cons_self)]
    rw [List.filter_cons]
    by_cases h3 : o.op.typeNum = 3 <;> simp [h3] <;> omega

theorem comments_count (b : Base) (title message : String) (files : List String) (e : List (String × String))
    (rest : List SOp) (hr : ∀ o ∈ rest, o.op.typeNum ≠ 1) :
    (compile comb (⟨.create b title message files, e⟩ :: rest)).comments.length
      = 1 + (rest.filter (fun o => o.op.typeNum == 3)).length := by
  unfold compile
  simp only [List.foldl_cons]
  rw [fold_comments_length comb rest hr]
  simp [step, apply, firstId, Op.base]

/-- the edit history of a comment grows by exactly one step per edit that reaches it -/
theorem CItem_append_history (c : CItem) (m : String) (f : List String) (t : Int) :
    (c.append m f t).history = c.history ++ [(m, t)] ∧ (c.append m f t).message = m ∧
    (c.append m f t).files = f ∧ (c.append m f t).createdAt = c.createdAt ∧ (c.append m f t).author = c.author := by
  simp [CItem.append]

/-! ## metadata attached later never overrides an existing key -/

theorem setExtra_keeps (extra : List (String × String)) (k v k' : String) (p : String × String)
    (h : extra.find? (fun q => q.1 == k') = some p) :
    (setExtra extra k v).find? (fun q => q.1 == k') = some p := by
  unfold setExtra
  split
  · exact h
  · rw [List.find?_append, h]; rfl

theorem foldl_setExtra_keeps (newMeta : List (String × String)) (k' : String) (p : String × String) :
    ∀ extra : List (String × String), extra.find? (fun q => q.1 == k') = some p →
      (newMeta.foldl (fun e q => setExtra e q.1 q.2) extra).find? (fun q => q.1 == k') = some p := by
  induction newMeta with
  | nil => intro extra h; exact h
  | cons a t ih => intro extra h; exact ih _ (setExtra_keeps extra a.1 a.2 k' p h)

/-- `metadata_immutable`: once an operation has a value for a key (its own or extra), a later
set-metadata operation does not change what `GetMetadata` returns for that key. -/
theorem metadata_immutable (o : SOp) (newMeta : List (String × String)) (k v : String)
    (h : getMetadata o k = some v) :
    getMetadata { o with extra := newMeta.foldl (fun e q => setExtra e q.1 q.2) o.extra } k = some v := by
  unfold getMetadata at h ⊢
  simp only
  cases hm : o.op.base.md.find? (fun p => p.1 == k) with
  | some p => simp only [hm] at h ⊢; exact h
  | none =>
    simp only [hm] at h ⊢
    cases he : o.extra.find? (fun p => p.1 == k) with
    | none => simp [he] at h
    | some p =>
      simp only [he, Option.map_some] at h
      rw [foldl_setExtra_keeps newMeta k p o.extra he]
      exact h

/-- applying the same set-metadata twice is the same as applying it once (needed for
`compile_repeatable`: the extra metadata lives on the shared operation objects) -/
theorem setExtra_idem (extra : List (String × String)) (k v : String) :
    setExtra (setExtra extra k v) k v = setExtra extra k v := by
  unfold setExtra
  split
  · rename_i h; simp [h]
  · rename_i h
    have : (extra ++ [(k, v)]).any (fun p => p.1 == k) = true := by simp
    simp [this]

/-- a set-metadata operation changes nothing but extra metadata -/
theorem setMetadata_only_extra (s : Snapshot) (b : Base) (target : String) (nm : List (String × String)) :
    let s' := apply comb s (.setMetadata b target nm)
    s'.title = s.title ∧ s'.status = s.status ∧ s'.labels = s.labels ∧ s'.comments = s.comments ∧
    s'.timeline = s.timeline ∧ s'.actors = s.actors ∧ s'.participants = s.participants ∧
    s'.ops.map (·.op) = s.ops.map (·.op) := by
  simp only [apply, true_and]
  induction s.ops with
  | nil => rfl
  | cons o t ih =>
    unfold applySetMetadata
    split <;> simp [ih]

/-- a no-op changes nothing -/
theorem noop_changes_nothing (s : Snapshot) (b : Base) : apply comb s (.noop b) = s := rfl

/-! ## non-vacuity: a concrete valid history exercising every operation kind -/

private def cmb (a b : String) : String := a ++ "/" ++ b
private def demo : List SOp := [
  ⟨.create ⟨"c0", "alice", 1, [], ""⟩ "T0" "body" [], []⟩,
  ⟨.addComment ⟨"a1", "bob", 2, [], ""⟩ "hi" ["f1"], []⟩,
  ⟨.labelChange ⟨"l1", "alice", 3, [], ""⟩ ["zeta", "alpha", "zeta"] ["nope"], []⟩,
  ⟨.editComment ⟨"e1", "carol", 4, [], ""⟩ "a1" "hi (edited)" [], []⟩,
  ⟨.editComment ⟨"e2", "carol", 5, [], ""⟩ "unknown" "x" [], []⟩,
  ⟨.setTitle ⟨"t1", "bob", 6, [], ""⟩ "T1" "T0", []⟩,
  ⟨.setStatus ⟨"s1", "bob", 7, [], ""⟩ 2, []⟩,
  ⟨.labelChange ⟨"l2", "alice", 8, [], ""⟩ ["beta"] ["zeta"], []⟩,
  ⟨.setMetadata ⟨"m1", "bob", 9, [], ""⟩ "a1" [("k", "v1")], []⟩,
  ⟨.setMetadata ⟨"m2", "bob", 10, [], ""⟩ "a1" [("k", "v2")], []⟩,
  ⟨.noop ⟨"n1", "bob", 11, [], ""⟩, []⟩]

example : (compile cmb demo).title = "T1" ∧ (compile cmb demo).status = 2 ∧
    (compile cmb demo).labels = ["alpha", "beta"] ∧
    (compile cmb demo).comments.map (·.message) = ["body", "hi (edited)"] ∧
    (compile cmb demo).actors = ["alice", "bob", "carol"] ∧
    (compile cmb demo).participants = ["alice", "bob"] ∧
    (compile cmb demo).timeline.length = 6 ∧
    ((compile cmb demo).ops.map (·.extra)) = [[], [("k", "v1")], [], [], [], [], [], [], [], [], []] := by
  decide

/-! ## recompiling a compiled snapshot -/

/-- `compile_ignores_extras`: everything a compile produces except the extra metadata on the operations
(id, status, title, comments, labels, author, actors, participants, times, timeline, and the
operations themselves) is a function of the bare operations alone: two operation lists that differ
only in extra metadata compile to snapshots that differ only there. -/
theorem compile_ignores_extras (ops ops' : List SOp) (h : ops.map (·.op) = ops'.map (·.op)) :
    ∃ l, compile comb ops' = { compile comb ops with ops := l } ∧ l.map (·.op) = (compile comb ops).ops.map (·.op) :=
  GitBugModel.Lemmas.CompileRepeat.compile_ignores_extras comb ops ops' h

/-- `compile_repeatable` (full statement): compiling the operations of a compiled snapshot again gives
exactly the same snapshot, the extra metadata on the operations included.  (`Bug.Compile` reads
`bug.Operations()`, whose elements already carry what earlier compiles attached.) -/
theorem compile_repeatable (ops : List SOp) : compile comb (compile comb ops).ops = compile comb ops :=
  GitBugModel.Lemmas.CompileRepeat.compile_repeatable comb ops

example : compile cmb (compile cmb demo).ops = compile cmb demo := compile_repeatable cmb demo
example : compile cmb (compile cmb demo).ops = compile cmb demo := by decide

end GitBugModel.Props.C10

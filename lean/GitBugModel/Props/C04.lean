import GitBugModel.Lemmas.JsonStr
import GitBugModel.Model.Pack
import GitBugModel.Model.Dag
import GitBugModel.Lemmas.PackSort
import GitBugModel.Props.C03
set_option linter.unusedSimpArgs false
/-!
# C04 — committed data reads back identically; ids are content-derived and stable
-/
namespace GitBugModel.Props.C04
open GitBugModel.Bug GitBugModel.Pack

/-! ## operation level: decode ∘ encode = id, for every operation -/

theorem field_find (fs : List (String × JVal)) (k : String) (v : JVal) (rest : List (String × JVal))
    (h : ∀ p ∈ fs, p.1 ≠ k) : (JVal.obj (fs ++ (k, v) :: rest)).field? k = some v := by
  simp only [JVal.field?]
  rw [List.find?_append]
  have : fs.find? (fun p => p.1 == k) = none := by
    rw [List.find?_eq_none]; intro p hp; simpa using h p hp
  simp [this]

/-- `fromJ_toJ`: every operation, whatever its field values (any text, any metadata, any file
list), decodes from its encoding to itself, given the id the store derives and the pack's author. -/
theorem fromJ_toJ (o : Op) : fromJ o.base.id o.base.author (toJ o) = .ok o := by
  cases o with
  | create b t m f =>
    obtain ⟨id, author, time, md, nonce⟩ := b
    by_cases hm : md = [] <;> simp [toJ, fromJ, baseFields, getNum?, getStr?, getStrs?, getDict?, JVal.field?, hm, List.find?_cons, Op.base]
  | setTitle b t w =>
    obtain ⟨id, author, time, md, nonce⟩ := b
    by_cases hm : md = [] <;> simp [toJ, fromJ, baseFields, getNum?, getStr?, getStrs?, getDict?, JVal.field?, hm, List.find?_cons, Op.base]
  | addComment b m f =>
    obtain ⟨id, author, time, md, nonce⟩ := b
    by_cases hm : md = [] <;> simp [toJ, fromJ, baseFields, getNum?, getStr?, getStrs?, getDict?, JVal.field?, hm, List.find?_cons, Op.base]
  | setStatus b st =>
    obtain ⟨id, author, time, md, nonce⟩ := b
    by_cases hm : md = [] <;> simp [toJ, fromJ, baseFields, getNum?, getStr?, getStrs?, getDict?, JVal.field?, hm, List.find?_cons, Op.base]
  | labelChange b a r =>
    obtain ⟨id, author, time, md, nonce⟩ := b
    by_cases hm : md = [] <;> simp [toJ, fromJ, baseFields, getNum?, getStr?, getStrs?, getDict?, JVal.field?, hm, List.find?_cons, Op.base]
  | editComment b tg m f =>
    obtain ⟨id, author, time, md, nonce⟩ := b
    by_cases hm : md = [] <;> simp [toJ, fromJ, baseFields, getNum?, getStr?, getStrs?, getDict?, JVal.field?, hm, List.find?_cons, Op.base]
  | noop b =>
    obtain ⟨id, author, time, md, nonce⟩ := b
    by_cases hm : md = [] <;> simp [toJ, fromJ, baseFields, getNum?, getStr?, getStrs?, getDict?, JVal.field?, hm, List.find?_cons, Op.base]
  | setMetadata b tg nm =>
    obtain ⟨id, author, time, md, nonce⟩ := b
    by_cases hm : md = [] <;> simp [toJ, fromJ, baseFields, getNum?, getStr?, getStrs?, getDict?, JVal.field?, hm, List.find?_cons, Op.base]

/-! ## pack level -/

/-- `unmarshallPack`: every raw operation is decoded, gets the hash of its stored form as id and
the pack's author -/
def unmarshalOps (H : JVal → String) (author : String) : List JVal → Except DecodeErr (List Op)
  | [] => .ok []
  | raw :: rest =>
    match fromJ (H raw) author raw with
    | .error e => .error e
    | .ok o => match unmarshalOps H author rest with
      | .error e => .error e
      | .ok os => .ok (o :: os)

/-- `pack_roundtrip`: a pack whose operations all carry the pack's author and whose ids are the
hashes of their stored form reads back as the same operations, in the same order. -/
theorem pack_roundtrip (H : JVal → String) (author : String) (ops : List Op)
    (hid : ∀ o ∈ ops, o.base.id = H (toJ o)) (hau : ∀ o ∈ ops, o.base.author = author) :
    unmarshalOps H author (ops.map toJ) = .ok ops := by
  induction ops with
  | nil => rfl
  | cons o t ih =>
    have h1 := hid o List.mem_cons_self
    have h2 := hau o List.mem_cons_self
    simp only [List.map_cons, unmarshalOps]
    rw [← h1, ← h2, fromJ_toJ]
    simp only
    rw [h2, ih (fun o' ho' => hid o' (List.mem_cons_of_mem _ ho')) (fun o' ho' => hau o' (List.mem_cons_of_mem _ ho'))]

/-- an operation's id is the hash of its stored form: the id predicted before storing
(`IdOperation` marshals the operation) and the id set when reading are the same function of the
same encoding -/
theorem op_id_stable (H : JVal → String) (o : Op) (author : String) (hid : o.base.id = H (toJ o)) (hau : o.base.author = author) :
    ∃ o', fromJ (H (toJ o)) author (toJ o) = .ok o' ∧ o'.base.id = o.base.id := by
  refine ⟨o, ?_, rfl⟩
  rw [← hid, ← hau]; exact fromJ_toJ o

/-! ## tree level -/

/-- `tree_roundtrip`: the tree `Write` builds is read back with the same ops blob and clocks,
for every format version in range. -/
theorem tree_roundtrip (v : Nat) (hv : 0 < v ∧ v ≤ 4096) (blob extra : String) (edit create : Nat) (hasFiles : Bool) :
    readTree v (writeTree v blob extra edit create hasFiles) = .ok { opsBlob := blob, edit := edit, create := create } := by
  have h1 : ¬ v > 4096 := by omega
  have h2 : (v == 0) = false := by simp; omega
  by_cases hc : create > 0 <;> cases hasFiles <;>
    simp [readTree, writeTree, findVersion, scanEntries, h1, h2, hc]
  all_goals omega

/-- a tree written for another format version is refused -/
theorem tree_wrong_version (v w : Nat) (hw : 0 < w ∧ w ≤ 4096) (hne : w ≠ v) (blob extra : String) (edit create : Nat) (f : Bool) :
    readTree v (writeTree w blob extra edit create f) = .error .wrongFormat := by
  have h1 : ¬ w > 4096 := by omega
  have h2 : (w == 0) = false := by simp; omega
  have h3 : (w != v) = true := by simp [hne]
  simp [readTree, writeTree, findVersion, h1, h2, h3]

/-- `extra_tree_covers`: every file attached to an operation of the pack is referenced by the
pack's extra tree (so it is reachable from the commit and travels with it) -/
theorem extra_tree_covers (ops : List Op) : ∀ o ∈ ops, ∀ f ∈ opFiles o, f ∈ extraFiles ops := by
  intro o ho f hf
  unfold extraFiles
  rw [List.mem_eraseDups]
  exact List.mem_flatMap.mpr ⟨o, ho, hf⟩

/-! ## entity level: `Commit` cuts the staging area into runs of equal author -/

theorem splitRuns_nonempty (ops : List Op) : ∀ run ∈ splitRuns ops, run ≠ [] := by
  induction ops with
  | nil => intro run h; cases h
  | cons o rest ih =>
    intro run h
    unfold splitRuns at h
    split at h
    · rename_i o' r more heq
      split at h
      · cases h with
        | head => simp
        | tail _ h2 => exact ih run (by rw [heq]; exact List.mem_cons_of_mem _ h2)
      · cases h with
        | head => simp
        | tail _ h2 => exact ih run (by rw [heq]; exact h2)
    · cases h with
      | head => simp
      | tail _ h2 => cases h2

theorem splitRuns_flatten (ops : List Op) : (splitRuns ops).flatten = ops := by
  induction ops with
  | nil => rfl
  | cons o rest ih =>
    unfold splitRuns
    split
    · rename_i o' run more heq
      rw [heq] at ih
      split <;> simp_all
    · rename_i hne
      -- `splitRuns rest` is empty or starts with an empty run; runs are never empty, so rest = []
      cases hr : splitRuns rest with
      | nil => rw [hr] at ih; simp at ih; simp [← ih]
      | cons a t =>
        cases a with
        | nil =>
          exfalso
          have : ([] : List Op) ∈ splitRuns rest := by rw [hr]; exact List.mem_cons_self
          exact splitRuns_nonempty rest [] this rfl
        | cons x xs => exact absurd hr (hne x xs t)

theorem splitRuns_same_author (ops : List Op) :
    ∀ run ∈ splitRuns ops, ∀ a ∈ run, ∀ b ∈ run, a.base.author = b.base.author := by
  induction ops with
  | nil => intro run h; cases h
  | cons o rest ih =>
    intro run h
    unfold splitRuns at h
    split at h
    · rename_i o' r more heq
      have ihr := ih (o' :: r) (by rw [heq]; exact List.mem_cons_self)
      split at h
      · rename_i hau
        have hau' : o.base.author = o'.base.author := by simpa using hau
        cases h with
        | head =>
          intro a ha b hb
          have key : ∀ x ∈ o :: o' :: r, x.base.author = o'.base.author := by
            intro x hx
            cases hx with
            | head => exact hau'
            | tail _ hx' => exact ihr x hx' o' List.mem_cons_self
          rw [key a ha, key b hb]
        | tail _ h2 => exact ih run (by rw [heq]; exact List.mem_cons_of_mem _ h2)
      · cases h with
        | head =>
          intro a ha b hb
          simp at ha hb; rw [ha, hb]
        | tail _ h2 => exact ih run (by rw [heq]; exact h2)
    · cases h with
      | head => intro a ha b hb; simp at ha hb; rw [ha, hb]
      | tail _ h2 => cases h2

/-! ## order and ids at the entity level -/

open GitBugModel.Dag in
theorem sortPacks_chain (packs : List Pack) (h : packs.Pairwise (fun a b => a.edit < b.edit)) :
    sortPacks packs = packs := by
  induction packs with
  | nil => rfl
  | cons x xs ih =>
    rw [List.pairwise_cons] at h
    simp only [sortPacks, List.foldr_cons] at ih ⊢
    rw [ih h.2]
    cases xs with
    | nil => rfl
    | cons y ys =>
      have := h.1 y List.mem_cons_self
      simp [insertPack, packLt, this]

open GitBugModel.Dag in
/-- packs whose edit times strictly increase in list order are already in read order: a linear
history reads back as the concatenation of its commits' operations, in commit order -/
theorem opsOf_chain (packs : List Pack) (h : packs.Pairwise (fun a b => a.edit < b.edit)) :
    opsOf packs = packs.flatMap (·.ops) := by
  unfold opsOf; rw [sortPacks_chain packs h]

open GitBugModel.Dag in
/-- `id_stable`: the pack with the strictly smallest edit time (the root, by C03's edge
condition) is read first, so the entity's first operation — whose id is the entity's id — is the
root's first operation whatever is appended, committed or merged later. -/
theorem first_op_is_roots (root : Pack) (others : List Pack) (hmin : ∀ p ∈ others, root.edit < p.edit)
    (enum : List Pack) (hperm : enum.Perm (root :: others)) (hk : KeyOK enum) :
    ∃ tail, opsOf enum = root.ops ++ tail := by
  -- the sorted arrangement starts with the root
  have hk' : KeyOK (root :: sortPacks others) := by
    intro a ha b hb
    have p : (root :: sortPacks others).Perm enum := (List.Perm.cons root (sortPacks_perm others)).trans hperm.symm
    exact hk a (p.subset ha) b (p.subset hb)
  have hsorted : (root :: sortPacks others).Pairwise packLe := by
    rw [List.pairwise_cons]
    refine ⟨?_, sortPacks_sorted others⟩
    intro p hp
    have := hmin p ((sortPacks_perm others).subset hp)
    unfold packLe packLt; simp; omega
  have hperm2 : (sortPacks enum).Perm (root :: sortPacks others) :=
    (sortPacks_perm enum).trans (hperm.trans (List.Perm.cons root (sortPacks_perm others).symm))
  have := sorted_perm_ess_eq (sortPacks_sorted enum) hsorted hperm2 (KeyOK_perm (sortPacks_perm enum).symm hk)
  refine ⟨(sortPacks others).flatMap (·.ops), ?_⟩
  rw [opsOf_eq_ess, this]
  simp [List.flatMap_cons, ess, List.flatMap_map]

/-- appending operations to an entity never changes its first operation (its id) -/
theorem append_keeps_first (ops more : List Op) (h : ops ≠ []) : (ops ++ more).head? = ops.head? := by
  cases ops with
  | nil => exact absurd rfl h
  | cons a t => rfl

/-! ## non-vacuity -/

example : fromJ "i" "a" (toJ (.create ⟨"i", "a", 5, [("k", "v")], "bm9uY2U="⟩ "Ünï title" "multi\nline" ["f1"]))
    = .ok (.create ⟨"i", "a", 5, [("k", "v")], "bm9uY2U="⟩ "Ünï title" "multi\nline" ["f1"]) :=
  fromJ_toJ (.create ⟨"i", "a", 5, [("k", "v")], "bm9uY2U="⟩ "Ünï title" "multi\nline" ["f1"])
example : (splitRuns [.noop ⟨"1", "a", 1, [], ""⟩, .noop ⟨"2", "a", 1, [], ""⟩, .noop ⟨"3", "b", 1, [], ""⟩, .noop ⟨"4", "a", 1, [], ""⟩]).map List.length
    = [2, 1, 1] := by decide

/-! ## the byte level: strings as encoding/json writes and reads them -/

/-- whatever characters a title, a message, a label, a name or a metadata value holds — quotes,
backslashes, control characters, `<`, `>`, `&`, the line separators U+2028/U+2029, any other
script, characters beyond the basic plane — the JSON string written for it is read back as
exactly that text (model of `encodeState.string` with HTML escaping and of the decoder's `unquote`,
compared with the implementation on every character below U+3100 and on escape forms a foreign
writer could produce) -/
theorem json_string_roundtrip (s : List Char) :
    GitBugModel.JsonStr.decode (GitBugModel.JsonStr.encode s) = some s :=
  GitBugModel.JsonStr.decode_encode s

/-- two different texts are stored as different bytes (so that the hash of the stored form tells
them apart) -/
theorem json_string_injective : Function.Injective GitBugModel.JsonStr.encode :=
  GitBugModel.JsonStr.encode_injective

end GitBugModel.Props.C04

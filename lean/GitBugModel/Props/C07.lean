import GitBugModel.Model.Dag
import GitBugModel.Model.Pack
import GitBugModel.Props.C02
import GitBugModel.Props.C03
import GitBugModel.Gen.Panics
/-!
# C07 — hostile or corrupt remote data is rejected without crash or local damage

The model has no `panic` outcome on the read path: every function of `Dag`, `Pack` is total and
answers `ok` or a classified error.  That this is faithful — that the Go functions which handle
data read from git contain no explicit `panic` any more — is the regenerated obligation
`gen_no_panic_on_read_path`; nil dereferences and the like cannot be seen syntactically and are
hunted by the mutation catalogue of the harness (which found and led to the repair of five).
-/
namespace GitBugModel.Props.C07
open GitBugModel.Dag GitBugModel.Pack

/-! ## decoding never crashes: every malformed input is a classified error -/

/-- an operation of a type the format does not know is an error (it used to be a `panic`) -/
theorem unknown_type_is_error (id author : String) (j : JVal) (t : Int) (ht : getNum? j "type" = some t)
    (hb : ∃ time nonce md, getNum? j "timestamp" = some time ∧ getStr? j "nonce" = some nonce ∧ getDict? j "metadata" = some md)
    (hu : t < 1 ∨ t > 8) : fromJ id author j = .error (.unknownType t) := by
  obtain ⟨time, nonce, md, h1, h2, h3⟩ := hb
  unfold fromJ
  simp only [ht, h1, h2, h3]
  rcases hu with h | h
  · split <;> first | rfl | omega
  · split <;> first | rfl | omega

/-- an operation without a type is malformed -/
theorem missing_type_is_error (id author : String) (j : JVal) (ht : getNum? j "type" = none) :
    fromJ id author j = .error .malformed := by
  unfold fromJ; simp [ht]

/-- a tree without an `ops` entry is an error (it used to dereference a nil author) -/
theorem tree_without_ops_is_error (v : Nat) (entries : List TreeEntry) (hv : findVersion entries = .ok v) (hv0 : v ≠ 0)
    (info : TreeInfo) (h : scanEntries entries { opsBlob := "", edit := 0, create := 0 } false = .ok (info, false)) :
    readTree v entries = .error .noOps := by
  unfold readTree
  have h0 : (v == 0) = false := by simpa using hv0
  simp [hv, h0, h]

/-- a tree whose version entry is missing, unparsable, too big or foreign is an error -/
theorem tree_bad_version (v : Nat) (entries : List TreeEntry) :
    (findVersion entries = .ok 0 → readTree v entries = .error .unknownFormat) ∧
    (∀ w, findVersion entries = .ok w → w ≠ 0 → w ≠ v → readTree v entries = .error .wrongFormat) ∧
    (∀ e, findVersion entries = .error e → readTree v entries = .error e) := by
  refine ⟨?_, ?_, ?_⟩
  · intro h; unfold readTree; simp [h]
  · intro w h h0 hne
    unfold readTree
    have : (w == 0) = false := by simpa using h0
    simp [h, this, hne]
  · intro e h; unfold readTree; simp [h]

/-! ## a refused remote version changes nothing locally (from C02) -/

/-- `invalid_is_inert`, all causes: the remote version is undecodable or structurally refused by
`read`, or fails entity validation, or sits under a ref that is not its id, or is unrelated to
the local history: reported invalid, local ref untouched, no merge commit. -/
theorem invalid_is_inert (s : Store) (rid : String) (lh : Option String) (rh : String) (ce cc : Nat) (nh mp au : String) :
    (∀ e, Dag.read s rh = .error e →
      (merge s rid lh rh ce cc nh mp au).status = .invalid ∧ (merge s rid lh rh ce cc nh mp au).localHead = lh ∧
      (merge s rid lh rh ce cc nh mp au).mergeCommit = none) ∧
    (∀ re, Dag.read s rh = .ok re → entityValid re.ops = false →
      (merge s rid lh rh ce cc nh mp au).status = .invalid ∧ (merge s rid lh rh ce cc nh mp au).localHead = lh ∧
      (merge s rid lh rh ce cc nh mp au).mergeCommit = none) ∧
    (∀ re, Dag.read s rh = .ok re → re.ops.head?.map (·.id) ≠ some rid →
      (merge s rid lh rh ce cc nh mp au).status = .invalid ∧ (merge s rid lh rh ce cc nh mp au).localHead = lh ∧
      (merge s rid lh rh ce cc nh mp au).mergeCommit = none) :=
  ⟨fun e h => C02.merge_unreadable_remote s rid lh rh ce cc nh mp au e h,
   fun re h hv => C02.merge_invalid_entity s rid lh rh ce cc nh mp au re h hv,
   fun re h hid => C02.merge_ref_id_mismatch s rid lh rh ce cc nh mp au re h hid⟩

/-- the status `invalid` always leaves the local head as it was -/
theorem invalid_keeps_local (s : Store) (rid : String) (lh : Option String) (rh : String) (ce cc : Nat) (nh mp au : String)
    (h : (merge s rid lh rh ce cc nh mp au).status = .invalid) :
    (merge s rid lh rh ce cc nh mp au).localHead = lh ∧ (merge s rid lh rh ce cc nh mp au).mergeCommit = none := by
  cases hr : Dag.read s rh with
  | error e => exact (C02.merge_unreadable_remote s rid lh rh ce cc nh mp au e hr).2
  | ok re =>
    cases hv : entityValid re.ops with
    | false => exact (C02.merge_invalid_entity s rid lh rh ce cc nh mp au re hr hv).2
    | true =>
      by_cases hid : re.ops.head?.map (·.id) = some rid
      · cases lh with
        | none =>
          have := (C02.merge_new s rid rh ce cc nh mp au re hr hv hid).1
          rw [this] at h; cases h
        | some l =>
          rw [C02.merge_existing s rid rh ce cc nh mp au re l hr hv hid] at h ⊢
          generalize max ce (maxOf (re.packs.map (·.edit))) = ce1 at h ⊢
          generalize max cc (maxOf (re.packs.map (·.create))) = cc1 at h ⊢
          by_cases h1 : l = rh ∨ rh ∈ reach s l
          · have := (C02.mergeExisting_nothing s rh ce1 cc1 nh mp au re l h1).1
            rw [this] at h; cases h
          · have hne : l ≠ rh := fun e => h1 (Or.inl e)
            have h3 : rh ∉ reach s l := fun e => h1 (Or.inr e)
            by_cases h4 : l ∈ reach s rh
            · have := (C02.mergeExisting_fastforward s rh ce1 cc1 nh mp au re l hne h3 h4).1
              rw [this] at h; cases h
            · by_cases hrel : ∃ x, x ∈ reach s l ∧ x ∈ reach s rh
              · rw [C02.mergeExisting_diverged s rh ce1 cc1 nh mp au re l hne h3 h4 hrel] at h
                cases hl : Dag.read s l with
                | error e =>
                  have := (C02.mergeDiverged_local_unreadable s rh ce1 cc1 nh mp au l e hl).1
                  rw [this] at h; cases h
                | ok le =>
                  obtain ⟨e, _, _, _, _, _, hst, _⟩ := C02.mergeDiverged_spec s rh ce1 cc1 nh mp au l le hl
                  rw [h] at hst
                  cases hst with
                  | inl h' => cases h'
                  | inr h' => cases h'
              · have hun : ∀ x ∈ reach s l, x ∉ reach s rh := fun x hx hx2 => hrel ⟨x, hx, hx2⟩
                exact (C02.mergeExisting_unrelated s rh ce1 cc1 nh mp au re l hne h3 h4 hun).2
      · exact (C02.merge_ref_id_mismatch s rid lh rh ce cc nh mp au re hr hid).2

/-- corrupt local data is an error of `read`, never anything else -/
theorem local_corrupt_is_error (s : Store) (head : String) (order : List Commit)
    (hb : bfs s (s.length + 1) [head] [head] [] = .ok order) (c : Commit) (hc : c ∈ order) (err : Err) (hp : c.pack = .error err) :
    ∃ e, Dag.read s head = .error e := by
  cases h : Dag.read s head with
  | error e => exact ⟨e, rfl⟩
  | ok ent => exact absurd h (C03.refuses_undecodable hb c hc err hp ent)

/-! ## regenerated obligation -/

/-- none of the functions that handle data read from git contains an explicit `panic(` -/
theorem gen_no_panic_on_read_path :
    GitBugModel.Gen.Panics.readPath.all (fun p => p.2 == 0) = true ∧ GitBugModel.Gen.Panics.readPath.length ≥ 20 := by
  decide

/-- nor an unchecked type assertion (`x.(T)` in its one-result form panics on another dynamic
type; what is decoded from git decides the dynamic type of a packet, a key, an operation) -/
theorem gen_no_unchecked_assert : GitBugModel.Gen.Panics.uncheckedAsserts = [] := by
  decide

end GitBugModel.Props.C07

import GitBugModel.Model.Conc
import GitBugModel.Gen.Locks
import GitBugModel.Gen.LockNest
import GitBugModel.Lemmas.RWLock
import GitBugModel.Lemmas.RWProg
/-!
# C18 — concurrent use of one cache loses no acknowledged edit
-/
namespace GitBugModel.Props.C18
open GitBugModel.Conc

/-! ## one instance, one lock: nothing is lost -/

def total (progs : List (List String)) : Nat := (progs.map List.length).sum

/-- the operations still to do plus the operations stored are always all the operations -/
theorem runLocked_perm (sched : List Nat) :
    ∀ (progs : List (List String)) (stored : List String),
      ((runLocked progs sched stored).1 ++ (runLocked progs sched stored).2.flatten).Perm (stored ++ progs.flatten) := by
  induction sched with
  | nil => intro progs stored; simp [runLocked]
  | cons i rest ih =>
    intro progs stored
    simp only [runLocked]
    cases h : takeNext progs i with
    | none => simpa [h] using ih progs stored
    | some v =>
      obtain ⟨op, progs'⟩ := v
      simp only [h]
      refine (ih progs' (stored ++ [op])).trans ?_
      -- progs.flatten is op inserted into progs'.flatten
      unfold takeNext at h
      cases hp : progs[i]? with
      | none => simp [hp] at h
      | some l =>
        cases l with
        | nil => simp [hp] at h
        | cons a t =>
          simp only [hp, Option.some.injEq, Prod.mk.injEq] at h
          obtain ⟨rfl, rfl⟩ := h
          have hi : i < progs.length := by
            by_cases hi : i < progs.length
            · exact hi
            · rw [List.getElem?_eq_none (by omega)] at hp; cases hp
          have hget : progs[i] = a :: t := by
            have := List.getElem?_eq_getElem hi
            rw [this] at hp; injection hp
          have hsplit : progs = progs.take i ++ (a :: t) :: progs.drop (i + 1) := by
            have h1 : progs.take i ++ progs.drop i = progs := List.take_append_drop i progs
            rw [List.drop_eq_getElem_cons hi, hget] at h1
            exact h1.symm
          have hset : progs.set i t = progs.take i ++ t :: progs.drop (i + 1) := by
            rw [List.set_eq_take_append_cons_drop]; simp [hi]
          rw [hset]
          conv => rhs; rw [hsplit]
          simp only [List.flatten_append, List.flatten_cons, List.append_assoc, List.cons_append, List.nil_append]
          apply List.Perm.append_left
          exact (List.perm_middle).symm

/-- `locked_no_loss`: when every edit of a loaded entity is an append-and-commit inside the entity's
lock on a single loaded instance, then after a schedule that lets every worker finish, the stored
history holds exactly the acknowledged operations of all workers, each once. -/
theorem locked_no_loss (progs : List (List String)) (sched : List Nat)
    (hdone : (runLocked progs sched []).2.flatten = []) :
    (runLocked progs sched []).1.Perm progs.flatten := by
  have := runLocked_perm sched progs []
  rw [hdone] at this
  simpa using this

/-- … and every prefix of a run only ever extends the stored history (a chain) -/
theorem runLocked_extends (sched : List Nat) :
    ∀ (progs : List (List String)) (stored : List String), ∃ t, (runLocked progs sched stored).1 = stored ++ t := by
  induction sched with
  | nil => intro progs stored; exact ⟨[], by simp [runLocked]⟩
  | cons i rest ih =>
    intro progs stored
    simp only [runLocked]
    cases h : takeNext progs i with
    | none => simpa [h] using ih progs stored
    | some v =>
      obtain ⟨op, progs'⟩ := v
      simp only [h]
      obtain ⟨t, ht⟩ := ih progs' (stored ++ [op])
      exact ⟨op :: t, by rw [ht]; simp⟩

/-! ## two instances of one entity lose acknowledged edits -/

/-- two loaded copies of the same bug: both edits are acknowledged, the second commit overwrites the
ref with a history that does not contain the first (kernel-checked) -/
theorem two_instances_lose_edit :
    let s0 : TwoInst := { inst1 := ["create"], inst2 := ["create"], ref := ["create"] }
    (editOn (editOn s0 true "a") false "b").ref = ["create", "b"] := by decide

/-! ## `Resolve`: a single loaded instance per entity -/

def RInv (s : RState) : Prop :=
  ∀ i k, rpc s i = .done k → s.cached = some k

theorem rpc_set (s : RState) (i j : Nat) (pc : RPC) (c : Option Nat) :
    rpc { cached := c, pcs := s.pcs.set i pc } j = if i = j ∧ i < s.pcs.length then pc else rpc s j := by
  unfold rpc
  simp only [List.getD_eq_getElem?_getD, List.getElem?_set]
  by_cases h : i = j
  · subst h
    by_cases hl : i < s.pcs.length
    · simp [hl]
    · simp [hl, List.getElem?_eq_none (Nat.le_of_not_lt hl)]
  · simp [h]

theorem rinv_step (s : RState) (i : Nat) (h : RInv s) : RInv (rstep true s i) := by
  unfold rstep
  cases hpc : rpc s i with
  | start =>
    simp only
    cases hc : s.cached with
    | none =>
      intro j k hj
      rw [rpc_set] at hj
      split at hj
      · cases hj
      · have := h j k hj; rw [hc] at this; cases this
    | some c =>
      intro j k hj
      rw [rpc_set] at hj
      split at hj
      · injection hj with e; subst e; rfl
      · simpa [hc] using h j k hj
  | missed =>
    intro j k hj
    simp only at hj ⊢
    rw [rpc_set] at hj
    split at hj
    · cases hj
    · exact h j k hj
  | built b =>
    simp only
    cases hc : s.cached with
    | none =>
      intro j k hj
      rw [rpc_set] at hj
      split at hj
      · injection hj with e; subst e; rfl
      · have := h j k hj; rw [hc] at this; cases this
    | some c =>
      simp only [if_true]
      intro j k hj
      rw [rpc_set] at hj
      split at hj
      · injection hj with e; subst e; rfl
      · simpa [hc] using h j k hj
  | done d => simpa using h

theorem rinv_init (n : Nat) : RInv (rinit n) := by
  intro i k h
  unfold rinit rpc at h
  simp only [List.getD_eq_getElem?_getD] at h
  by_cases hl : i < n <;> simp [List.getElem?_replicate, hl] at h

/-- `resolve_single_instance`: with the second look under the write lock, whatever the interleaving
of any number of goroutines resolving the same unloaded entity, every one of them is handed the
instance that is in the map — there is one loaded copy -/
theorem resolve_single_instance (n : Nat) (sched : List Nat) (i j a b : Nat)
    (hi : rpc (rrun true (rinit n) sched) i = .done a) (hj : rpc (rrun true (rinit n) sched) j = .done b) : a = b := by
  have key : ∀ (sched : List Nat) (s : RState), RInv s → RInv (rrun true s sched) := by
    intro sched
    induction sched with
    | nil => intro s h; exact h
    | cons x t ih => intro s h; exact ih _ (rinv_step s x h)
  have h := key sched (rinit n) (rinv_init n)
  have h1 := h i a hi
  have h2 := h j b hj
  rw [h1] at h2
  injection h2

/-- the pinned tree's `Resolve` (no second look): two goroutines get two different instances -/
theorem resolve_double_load_pinned :
    handed (rrun false (rinit 2) [0, 1, 0, 1, 0, 1]) = [0, 1] ∧
    handed (rrun true (rinit 2) [0, 1, 0, 1, 0, 1]) = [0, 0] := by decide

/-! ## no call deadlocks: lock order -/

open GitBugModel.RWLock in
/-- `deadlock_free`: for any number of goroutines and read-write mutexes (Go's semantics: not
re-entrant, a waiting writer stops new readers), if every goroutine that waits for a mutex
holds only smaller ones (SUB < ENT < SNAP in the cache) and everybody releases what it took
before returning, then whenever some goroutine has not returned, some goroutine can step. -/
theorem deadlock_free (c : Conf) (wf : WF c) (h : ∃ t ∈ c.tids, c.st t ≠ .done) :
    deadlocked c = false := by
  obtain ⟨t, ht, he⟩ := ordered_no_deadlock c wf h
  unfold deadlocked
  have : (c.tids.all fun t => !enabled c t) = false := by
    rw [Bool.eq_false_iff]
    intro hall
    have := List.all_eq_true.mp hall t ht
    simp [he] at this
  simp [this]

open GitBugModel.RWLock in
/-- the configuration `RepoCacheBug.Query(nil)` could reach on the pinned tree: goroutine 0 holds
the sub-cache mutex for reading and asks for it again (through `AllIds`), goroutine 1 has called
`Lock` in between -/
def nestedRLock : Conf where
  mx := fun m => if m = 0 then { readers := [0], writer := none, pending := [1] } else {}
  st := fun t => if t = 0 then .waitR 0 else if t = 1 then .waitW 0 else .done
  tids := [0, 1]

/-- `nested_rlock_deadlocks`: taking a read lock one already holds, with a writer arriving in
between, blocks both for ever — the lock-order hypothesis of `deadlock_free` (which excludes
asking for a mutex one holds) is necessary.  Kernel-checked witness; the real schedule was found
by the goroutine harness and repaired in /repo. -/
theorem nested_rlock_deadlocks : GitBugModel.RWLock.deadlocked nestedRLock = true := by decide

/-- regenerated: no method of the cache calls, while it holds a mutex of its receiver, a method
of that receiver that takes the same mutex; nothing asks for the sub-cache mutex while holding an
entity's mutex, nor for either while holding a snapshot mutex; the scan saw the lock regions -/
theorem gen_lock_order :
    GitBugModel.Gen.LockNest.nestedSame = [] ∧ GitBugModel.Gen.LockNest.againstOrder = [] ∧
    GitBugModel.Gen.LockNest.scanned.1 = 7 ∧ GitBugModel.Gen.LockNest.scanned.2.1 ≥ 30 ∧
    GitBugModel.Gen.LockNest.acquiring.contains "SUB:AllIds" = true ∧
    GitBugModel.Gen.LockNest.acquiring.contains "ENT:Commit" = true := by
  decide


/-! ## goroutines as programs: every run stays within `deadlock_free`'s hypothesis -/

section Programs
open GitBugModel.RWLock GitBugModel.RWProg

/-- `run_no_deadlock`: any number of goroutines, each running a program that asks only for
mutexes larger than all it holds and releases what it took before it returns (`Safe`), under any
schedule: as long as some goroutine has not returned, some goroutine can step.  This closes the gap
between the lock requests found in the source and the configurations `deadlock_free` is about:
the well-formedness it assumes is an invariant of every run (`Lemmas/RWProg`: `inv_init`,
`inv_pstep`, `inv_run`, `inv_wf`). -/
theorem run_no_deadlock (progs : List (List Instr)) (hsafe : ∀ p ∈ progs, Safe [] p) (sched : List Nat) :
    (∃ t ∈ (run (init progs) sched).conf.tids, (run (init progs) sched).conf.st t ≠ .done) →
    deadlocked (run (init progs) sched).conf = false :=
  deadlock_free _ (inv_wf _ (inv_run _ (inv_init progs hsafe) sched))

/-- no goroutine ever holds a mutex it is asking for, and what it holds is below what it asks for -/
theorem run_respects_order (progs : List (List Instr)) (hsafe : ∀ p ∈ progs, Safe [] p) (sched : List Nat)
    (t m : Nat) (hreq : request ((run (init progs) sched).conf.st t) = some m) :
    ∀ m', t ∈ holders (run (init progs) sched).conf m' → m' < m :=
  (inv_wf _ (inv_run _ (inv_init progs hsafe) sched)).ordered t m hreq

/-- mutex numbers of the cache: the sub-cache's mutex, then the entities', then the snapshots' -/
def SUB : Nat := 0
def ENT (i : Nat) : Nat := 1 + 2 * i
def SNAP (i : Nat) : Nat := 2 + 2 * i

/-- the lock requests of the cache's calls, in the order the source makes them (the order and the
absence of nesting are what `gen_lock_order` regenerates): an edit of entity `i` followed by the
notification of the sub-cache and the writing of the excerpt file; a commit; `Resolve` with its
second look; a query -/
def editCall (i : Nat) : List Instr :=
  [.lock (ENT i), .lock (SNAP i), .work, .unlock (SNAP i), .unlock (ENT i), .lock SUB, .work, .unlock SUB, .rlock SUB, .work, .runlock SUB]
def commitCall (i : Nat) : List Instr :=
  [.lock (ENT i), .work, .unlock (ENT i), .lock SUB, .work, .unlock SUB, .rlock SUB, .work, .runlock SUB]
def resolveCall : List Instr := [.rlock SUB, .runlock SUB, .work, .lock SUB, .work, .unlock SUB]
def queryCall : List Instr := [.rlock SUB, .work, .runlock SUB, .rlock SUB, .runlock SUB]

theorem cache_calls_safe (i : Nat) :
    Safe [] (editCall i) ∧ Safe [] (commitCall i) ∧ Safe [] resolveCall ∧ Safe [] queryCall := by
  refine ⟨?_, ?_, ?_, ?_⟩ <;> simp [Safe, editCall, commitCall, resolveCall, queryCall, SUB, ENT, SNAP] <;> omega

/-- a sequence of safe calls is a safe program -/
theorem safe_append (p q : List Instr) (hp : Safe [] p) (hq : Safe [] q) : Safe [] (p ++ q) := by
  suffices ∀ (h : Held) (p : List Instr), Safe h p → Safe h (p ++ q) from this [] p hp
  intro h p
  induction p generalizing h with
  | nil => intro hh; simp only [Safe] at hh; subst hh; simpa using hq
  | cons i r ih =>
    intro hh
    cases i <;> simp only [List.cons_append, Safe] at hh ⊢
    · exact ⟨hh.1, ih _ hh.2⟩
    · exact ⟨hh.1, ih _ hh.2⟩
    · exact ⟨hh.1, ih _ hh.2⟩
    · exact ⟨hh.1, ih _ hh.2⟩
    · exact ih _ hh

/-- the program of `Query(nil)` on the pinned tree — a read lock asked for again while held — is not
safe, and with a writer arriving in between the run deadlocks (the program-level counterpart of
`nested_rlock_deadlocks`) -/
theorem nested_program_deadlocks :
    ¬ Safe [] [.rlock SUB, .rlock SUB, .runlock SUB, .runlock SUB] ∧
    deadlocked (run (init [[.rlock SUB, .rlock SUB, .runlock SUB, .runlock SUB], [.lock SUB, .unlock SUB]]) [0, 1, 0]).conf = true := by
  constructor
  · simp [Safe, SUB]
  · decide

/-! non-vacuity: two goroutines (a resolve with its second look under the write lock, a query) run to
the end, the writer having waited for the reader -/
set_option maxRecDepth 4000 in
example :
    let s := run (init [resolveCall, queryCall]) [0, 1, 0, 1, 0, 1, 0, 1, 0, 1, 0, 1, 0, 1, 0, 1, 0, 1, 0, 1, 0, 1, 0, 1]
    (s.conf.st 0, s.conf.st 1) = (.done, .done) := by
  decide

end Programs

/-! ## regenerated obligations: the locks found in the source now -/

/-- every statement that hands a loaded entity to a mutating function sits inside that entity's lock -/
theorem gen_entity_calls_locked :
    GitBugModel.Gen.Locks.entityCalls.all (·.2) = true ∧ GitBugModel.Gen.Locks.entityCalls.length ≥ 10 := by
  decide

/-- `Resolve` looks again under the write lock (what `resolve_single_instance` is about) -/
theorem gen_resolve_rechecks : GitBugModel.Gen.Locks.resolveRechecks = true := by decide

/-! ## non-vacuity -/

example : (runLocked [["a1", "a2"], ["b1"]] [0, 1, 0] []).1 = ["a1", "b1", "a2"] := by decide
example : isInterleaving ["a1", "b1", "a2"] [["a1", "a2"], ["b1"]] 10 = true ∧
    isInterleaving ["a2", "b1", "a1"] [["a1", "a2"], ["b1"]] 10 = false ∧
    isInterleaving ["a1", "a2"] [["a1", "a2"], ["b1"]] 10 = false := by decide

end GitBugModel.Props.C18

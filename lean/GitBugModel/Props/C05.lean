import GitBugModel.Model.Lamport
import GitBugModel.Model.Dag
import GitBugModel.Props.C02
import GitBugModel.Model.MemClockCAS
import GitBugModel.Gen.WritePaths
import GitBugModel.Model.ClockFile
/-!
# C05 — logical clocks only move forward and dominate everything seen
-/
namespace GitBugModel.Props.C05
open GitBugModel.Lamport

/-! ## in-memory clock -/

theorem increment_gt (c : Nat) : (increment c).2 > c ∧ (increment c).1 = (increment c).2 := by
  simp [increment]

theorem witness_ge (c v : Nat) : witness c v ≥ c ∧ witness c v ≥ v := by
  unfold witness; split <;> omega

theorem witness_idem (c v : Nat) : witness (witness c v) v = witness c v := by
  unfold witness; split <;> simp <;> omega

/-- `witness_cas_linear`: any number of witnesses in any order end at the maximum -/
theorem witness_fold (c : Nat) (vs : List Nat) :
    vs.foldl witness c ≥ c ∧ ∀ v ∈ vs, vs.foldl witness c ≥ v := by
  induction vs generalizing c with
  | nil => simp
  | cons a t ih =>
    obtain ⟨h1, h2⟩ := ih (witness c a)
    have := witness_ge c a
    refine ⟨by simp only [List.foldl_cons]; omega, ?_⟩
    intro v hv
    simp only [List.foldl_cons]
    cases hv with
    | head => omega
    | tail _ h => exact h2 v h

/-! ## persisted clock: never backwards while the file is intact; restart keeps the value -/

/-- file and memory agree (after any operation that touched the clock) -/
def Synced (c : PClock) : Prop :=
  match c.mem with
  | some n => c.file = .value n
  | none => True

/-- the operations a healthy process performs (no deletion or torn file) -/
def benign : Op → Bool
  | .inc | .wit _ | .time | .reopen => true
  | _ => false

theorem step_synced (c : PClock) (o : Op) (hs : Synced c) : Synced (step c o).1 := by
  obtain ⟨mem, file⟩ := c
  cases o <;> cases mem <;> cases file <;>
    simp_all [step, getOrCreate, Synced] <;> (try split) <;> simp_all

/-- `clock_monotone` (one step): a benign operation on a synced, readable clock never lowers
the value the clock stands for. -/
theorem step_monotone (c : PClock) (o : Op) (hb : benign o = true) (hs : Synced c) (hg : c.file ≠ .garbage) :
    current (step c o).1 ≥ current c ∧ (step c o).1.file ≠ .garbage := by
  obtain ⟨mem, file⟩ := c
  cases o <;> simp [benign] at hb <;> cases mem <;> cases file <;>
    simp_all [step, getOrCreate, Synced, current, witness] <;> (try split) <;> (try omega)

/-- `clock_monotone`: every sequence of increments, witnesses, reads and restarts leaves the
clock at least where it was. -/
theorem run_monotone (ops : List Op) (hb : ∀ o ∈ ops, benign o = true) :
    ∀ c : PClock, Synced c → c.file ≠ .garbage → current (run c ops).1 ≥ current c := by
  induction ops with
  | nil => intro c _ _; simp [run]
  | cons o t ih =>
    intro c hs hg
    obtain ⟨h1, h2⟩ := step_monotone c o (hb o List.mem_cons_self) hs hg
    have := ih (fun o' ho' => hb o' (List.mem_cons_of_mem _ ho')) (step c o).1 (step_synced c o hs) h2
    simp only [run]
    omega

/-- `increment_fresh`: the value an increment returns exceeds the clock's value before it —
hence every value returned or witnessed earlier (by `run_monotone` those are ≤ the clock). -/
theorem increment_fresh (c : PClock) (hg : c.file ≠ .garbage) :
    ∃ v, (step c .inc).2 = .ok v ∧ v > current c ∧ current (step c .inc).1 = v := by
  obtain ⟨mem, file⟩ := c
  cases mem <;> cases file <;> simp_all [step, getOrCreate, current]

/-- `witness_dominates`: after a witness the clock is at least the witnessed value. -/
theorem witness_dominates (c : PClock) (v : Nat) (hg : c.file ≠ .garbage) :
    ∃ n, (step c (.wit v)).2 = .ok n ∧ n ≥ v ∧ current (step c (.wit v)).1 = n := by
  obtain ⟨mem, file⟩ := c
  cases mem <;> cases file <;> simp_all [step, getOrCreate, current, witness] <;> split <;> omega

/-- `persist_restart`: a restart changes nothing the clock stands for. -/
theorem persist_restart (c : PClock) (hs : Synced c) : current (step c .reopen).1 = current c := by
  obtain ⟨mem, file⟩ := c
  cases mem <;> cases file <;> simp_all [step, current, Synced]

/-- a deleted clock restarts at 1 and its next increment returns 2: nothing in the clock code
itself recovers the old value — the repository must rebuild it from the entities
(`rebuild_dominates`); a torn file is an error for every later operation -/
theorem deleted_clock_restarts (c : PClock) : (step (step c .delete).1 .inc).2 = .ok 2 := by
  simp [step, getOrCreate]

theorem torn_clock_errors (c : PClock) (o : Op) (hm : c.mem = none) (hf : c.file = .garbage)
    (ho : o = .inc ∨ (∃ v, o = .wit v) ∨ o = .time) : (step c o).2 = .err := by
  rcases ho with h | ⟨v, h⟩ | h <;> subst h <;> simp [step, getOrCreate, hm, hf]

/-! ## entity level -/

open GitBugModel.Dag in
/-- `rebuild_dominates`: witnessing the edit time of every pack of an entity (what reading it,
or the clock loader, does) leaves the clock at least at each of them. -/
theorem rebuild_dominates (c : Nat) (packs : List Pack) :
    ∀ p ∈ packs, (packs.map (·.edit)).foldl witness c ≥ p.edit := by
  intro p hp
  exact (witness_fold c (packs.map (·.edit))).2 p.edit (List.mem_map.mpr ⟨p, hp, rfl⟩)

open GitBugModel.Dag in
/-- `read_witnesses_all`: the clocks after a merge dominate every pack of the remote entity. -/
theorem merge_witnesses_remote (s : Store) (rid : String) (lh : Option String) (rh : String) (ce cc : Nat) (nh mp au : String)
    (re : Entity) (h : Dag.read s rh = .ok re) :
    ∀ p ∈ re.packs, p.edit ≤ (merge s rid lh rh ce cc nh mp au).clockEdit := by
  intro p hp
  have hmax := C02.maxOf_ge (re.packs.map (·.edit)) p.edit (List.mem_map.mpr ⟨p, hp, rfl⟩)
  unfold merge
  simp only [h]
  split
  · simp; omega
  · split
    · simp; omega
    · split
      · simp; omega
      · rename_i l
        have := C02.mergeExisting_clock_monotone s rh (max ce (maxOf (re.packs.map (·.edit))))
          (max cc (maxOf (re.packs.map (·.create)))) nh mp au re l
        omega

/-- `written_dominates`: the edit time a commit gets (`Increment`) exceeds the clock, which
dominates everything the repository has written, read or merged before. -/
theorem written_dominates (clock : Nat) (seen : List Nat) (h : ∀ v ∈ seen, v ≤ clock) :
    ∀ v ∈ seen, v < (increment clock).2 := by
  intro v hv; have := h v hv; simp [increment]; omega

/-! ## the hypothesis `HopOK`: a clock far ahead makes the next ordinary edit unreadable -/

open GitBugModel.Dag in
/-- Counterexample (kernel-checked): a repository whose edit clock stands at 5,000,001 (after
witnessing any valid bug created far ahead) commits an ordinary edit on an old bug (last edit
time 3) at `Increment` = 5,000,002; the history is then refused by every reader
("lamport clock jumping too far in the future"). -/
theorem commit_unreadable_when_clock_far :
    let old : Store := [{ hash := "R", parents := [], pack := .ok { id := "p0", author := "a", ops := [{ id := "create", kind := 1 }], create := 1, edit := 3 } }]
    let t := (increment 5000001).2
    let s := old ++ [{ hash := "C", parents := ["R"], pack := .ok { id := "p1", author := "a", ops := [{ id := "comment", kind := 3 }], create := 0, edit := t } }]
    (match Dag.read old "R" with | .ok _ => true | .error _ => false) = true ∧
    (match Dag.read s "C" with | .error .clockJump => true | _ => false) = true := by
  decide

/-! ## non-vacuity -/

example : (run { mem := none, file := .absent } [.inc, .wit 10, .inc, .reopen, .time, .wit 3, .inc]).2
    = [.ok 2, .ok 10, .ok 11, .ok 0, .ok 11, .ok 11, .ok 12] := by decide
example : Synced { mem := some 4, file := .value 4 } ∧ ({ mem := some 4, file := .value 4 } : PClock).file ≠ .garbage := by
  simp [Synced]


/-! ## the in-memory clock under concurrency (compare-and-swap loop of `MemClock.Witness`) -/

namespace CAS
open GitBugModel.MemClockCAS

/-- what holds in every reachable state: a value loaded earlier is not above the counter, a
returned `Witness(v)` left the counter at or above `v`, a returned `Increment` got a value the
counter has reached -/
def Inv (s : St) : Prop :=
  ∀ t ∈ s.threads, match t with
    | .loaded _ cur => cur ≤ s.counter
    | .doneW v => v ≤ s.counter
    | .doneI got => got ≤ s.counter
    | _ => True

theorem stepT_mono (c : Nat) (t : T) (ht : match t with | .loaded v cur => cur < v | _ => True) :
    c ≤ (stepT c t).1 := by
  cases t with
  | inc => simp [stepT]
  | idle v => simp only [stepT]; split <;> simp
  | loaded v cur =>
    simp only [stepT]
    split
    · rename_i h; simp at ht ⊢; omega
    · simp
  | doneW v => simp [stepT]
  | doneI g => simp [stepT]

/-- the loaded value is below the witnessed one (else `Witness` would have returned) -/
def Loaded (s : St) : Prop := ∀ t ∈ s.threads, match t with | .loaded v cur => cur < v | _ => True

theorem step_loaded (s : St) (i : Nat) (h : Loaded s) : Loaded (cstep s i) := by
  unfold cstep
  cases hi : s.threads[i]? with
  | none => simpa using h
  | some t =>
    simp only
    intro t' ht'
    rcases List.mem_or_eq_of_mem_set ht' with hm | rfl
    · exact h t' hm
    · cases t with
      | inc => simp [stepT]
      | idle v =>
        by_cases hv : v ≤ s.counter
        · simp [stepT, hv]
        · simp [stepT, hv]; omega
      | loaded v cur =>
        by_cases hc : s.counter = cur
        · simp [stepT, hc]
        · simp [stepT, hc]
      | doneW v => simp [stepT]
      | doneI g => simp [stepT]

theorem step_counter_mono (s : St) (i : Nat) (h : Loaded s) : s.counter ≤ (cstep s i).counter := by
  unfold cstep
  cases hi : s.threads[i]? with
  | none => simp
  | some t =>
    simp only
    have hm : t ∈ s.threads := List.mem_of_getElem? hi
    exact stepT_mono s.counter t (by have := h t hm; cases t <;> simp_all)

theorem step_inv (s : St) (i : Nat) (hl : Loaded s) (h : Inv s) : Inv (cstep s i) := by
  have hmono := step_counter_mono s i hl
  unfold cstep at hmono ⊢
  cases hi : s.threads[i]? with
  | none => simpa using h
  | some t =>
    simp only [hi] at hmono ⊢
    intro t' ht'
    rcases List.mem_or_eq_of_mem_set ht' with hm | rfl
    · have := h t' hm
      cases t' <;> simp_all <;> omega
    · cases t with
      | inc => simp [stepT]
      | idle v =>
        by_cases hv : v ≤ s.counter
        · simp [stepT, hv]
        · simp [stepT, hv]
      | loaded v cur =>
        by_cases hc : s.counter = cur
        · simp [stepT, hc]
        · simp [stepT, hc]
      | doneW v =>
        have hm : T.doneW v ∈ s.threads := List.mem_of_getElem? hi
        have := h _ hm
        simpa [stepT] using this
      | doneI g =>
        have hm : T.doneI g ∈ s.threads := List.mem_of_getElem? hi
        have := h _ hm
        simpa [stepT] using this

/-- `witness_cas_linear`: under every interleaving of any number of goroutines incrementing and
witnessing one in-memory clock, the counter never decreases, every `Witness(v)` that has returned
left it at or above `v` for good, and every value an `Increment` returned has been reached. -/
theorem witness_cas_linear (s : St) (sched : List Nat) (hl : Loaded s) (h : Inv s) :
    s.counter ≤ (crun s sched).counter ∧ Inv (crun s sched) ∧ Loaded (crun s sched) := by
  induction sched generalizing s with
  | nil => exact ⟨Nat.le_refl _, h, hl⟩
  | cons i rest ih =>
    have := ih (cstep s i) (step_loaded s i hl) (step_inv s i hl h)
    simp only [crun, List.foldl_cons] at this ⊢
    exact ⟨Nat.le_trans (step_counter_mono s i hl) this.1, this.2⟩

/-- increments are atomic adds: two `Increment`s never return the same value (each returns the
counter right after its own add, and the counter never decreases) -/
theorem increment_returns_new (c : Nat) : (stepT c .inc).2 = .doneI (c + 1) ∧ (stepT c .inc).1 = c + 1 := by
  simp [stepT]

example : crun { counter := 1, threads := [.idle 5, .idle 3, .inc] } [0, 1, 2, 1, 0, 0, 0, 1] =
    { counter := 5, threads := [.doneW 5, .doneW 3, .doneI 2] } := by decide

end CAS

/-! ## the clock file under concurrent use -/

namespace FileFollows
open GitBugModel.ClockFile

/-- the file holds the counter whenever nobody owes a write -/
def Inv (s : St) : Prop := s.pending = [] → s.file = s.counter

theorem inv_step (s : St) (x : Step) (hr : match x with | .capture _ => False | .rename _ => False | _ => True)
    (h : Inv s) : Inv (ClockFile.step s x) := by
  cases x with
  | bump t => intro hp; simp [ClockFile.step] at hp
  | write t =>
    simp only [ClockFile.step]
    split
    · intro _; rfl
    · exact h
  | capture t => exact absurd hr id
  | rename t => exact absurd hr id

theorem inv_run : ∀ (l : List Step) (s : St), Inv s → Repaired l → Inv (ClockFile.run s l)
  | [], _, h, _ => h
  | x :: xs, s, h, hrep => by
    simp only [ClockFile.run, List.foldl_cons]
    exact inv_run xs (ClockFile.step s x) (inv_step s x (hrep x List.mem_cons_self) h)
      (fun y hy => hrep y (List.mem_cons_of_mem _ hy))

/-- **with the repaired `Write`** (a mutex, the counter read inside it), for any number of goroutines
and any interleaving of their counter changes and writes: once every goroutine that moved the clock
has written, the clock file holds exactly what the clock stands at — the next process starts where
this one stopped and hands out no time twice -/
theorem file_follows_counter (c : Nat) (l : List Step) (hr : Repaired l) (hdone : (ClockFile.run (init c) l).pending = []) :
    (ClockFile.run (init c) l).file = (ClockFile.run (init c) l).counter :=
  inv_run l (init c) (fun _ => rfl) hr hdone

/-- **the pinned `Write`** rendered the counter and renamed its file in two steps: two goroutines that
increment at the same time can rename in the other order, and the file ends up behind a time that was
handed out (kernel-checked schedule; found on the real code by `c05Concurrent`, repaired in /repo) -/
theorem pinned_write_falls_behind :
    let s := ClockFile.run (init 5) [.bump 0, .capture 0, .bump 1, .capture 1, .rename 1, .rename 0]
    s.pending = [] ∧ s.counter = 7 ∧ s.file = 6 := by
  decide

example : (ClockFile.run (init 5) [.bump 0, .bump 1, .write 1, .bump 2, .write 0, .write 2]).file = 8 := by decide

/-- regenerated from util/lamport/persisted_clock.go: `Write` takes its mutex (and defers the
release) before it reads the counter, and reads it before it creates and renames the file — the one
atomic step `file := counter` of `file_follows_counter` -/
theorem gen_clock_write_serialised :
    GitBugModel.Gen.WritePaths.clockWriteOrder = ["Lock", "Unlock", "Time", "TempFile", "Rename"] := by
  decide

end FileFollows

/-! ## the persisted clock's read path, as found in the source -/

/-- regenerated from util/lamport/persisted_clock.go: `read` answers "this clock does not exist"
only when the file is missing (`os.IsNotExist`); any other failure is an error.  The repository
answers "does not exist" by creating the clock at 1 (`deleted_clock_restarts`), which is right for a
missing file and would take an intact clock back for any other failure. -/
theorem gen_clock_not_exist_only_when_missing :
    GitBugModel.Gen.WritePaths.clockNotExist = ["os.IsNotExist(err)"] := by
  decide

end GitBugModel.Props.C05

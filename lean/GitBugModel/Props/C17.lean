import GitBugModel.Model.Gate
import GitBugModel.Gen.Resolvers
/-!
# C17 — without an authenticated user the API cannot change anything
-/
namespace GitBugModel.Props.C17
open GitBugModel.Gate

/-- `gate_general`: a gated program run without a user changes nothing, whichever calls fail -/
theorem gate_general (p : List Step) (h : gated p = true) (fails : Nat → Bool) :
    ∀ i σ, (run false fails p i σ).2 = σ ∧ (run false fails p i σ).1 ≠ .done ∨
           ((run false fails p i σ).2 = σ ∧ p.all (fun s => match s with | .read _ => true | _ => false) = true) := by
  induction p with
  | nil => intro i σ; right; simp [run]
  | cons s rest ih =>
    intro i σ
    cases s with
    | gate => left; simp [run]
    | mutate n => simp [gated] at h
    | read n =>
      simp only [gated] at h
      simp only [run]
      by_cases hf : fails i = true
      · left; simp [hf]
      · simp only [hf, Bool.false_eq_true, if_false]
        rcases ih h (i + 1) σ with h1 | h1
        · left; exact h1
        · right; exact ⟨h1.1, by simp [h1.2]⟩

/-- the state is never changed without a user -/
theorem no_user_no_change (p : List Step) (h : gated p = true) (fails : Nat → Bool) (σ : List String) :
    (run false fails p 0 σ).2 = σ := by
  rcases gate_general p h fails 0 σ with h1 | h1
  · exact h1.1
  · exact h1.1

/-- a gated program that contains a gate is refused or fails without a user: it never completes -/
theorem no_user_refused (p : List Step) (h : gated p = true) (hg : Step.gate ∈ p) (fails : Nat → Bool) (σ : List String) :
    (run false fails p 0 σ).1 ≠ .done := by
  rcases gate_general p h fails 0 σ with h1 | h1
  · exact h1.2
  · exfalso
    have := List.all_eq_true.mp h1.2 .gate hg
    simp at this

/-- with a user and no failing call the program performs exactly its mutations, in order -/
theorem with_user (p : List Step) :
    ∀ i σ, run true (fun _ => false) p i σ =
      (.done, σ ++ p.filterMap (fun s => match s with | .mutate n => some n | _ => none)) := by
  induction p with
  | nil => intro i σ; simp [run]
  | cons s rest ih =>
    intro i σ
    cases s <;> simp [run, ih]

/-! ## regenerated obligations: every mutation resolver and the upload endpoint, as found in the
source now, are gated; the gate's error is returned at once; every mutation field of the served
schema has a resolver in the table (so a newly added mutation is included by itself) -/

def stepOf (s : String × String) : Step :=
  match s.1 with
  | "gate" => .gate
  | "mutate" => .mutate s.2
  | _ => .read s.2

theorem gen_gated :
    GitBugModel.Gen.Resolvers.programs.all (fun p => gated (p.2.2.map stepOf) && p.2.1 && (p.2.2.map stepOf).contains .gate) = true ∧
    GitBugModel.Gen.Resolvers.programs ≠ [] := by
  decide

theorem gen_schema_covered :
    GitBugModel.Gen.Resolvers.schemaMutations.all (fun f => GitBugModel.Gen.Resolvers.programs.any (fun p => p.1 == f)) = true ∧
    GitBugModel.Gen.Resolvers.schemaMutations ≠ [] ∧
    GitBugModel.Gen.Resolvers.programs.any (fun p => p.1 == "upload") = true := by
  decide

/-- "authored by that user": every mutating call of a resolver other than the final `Commit`
(and the blob store of the upload endpoint) is handed the value `UserFromCtx` returned -/
theorem gen_authored :
    GitBugModel.Gen.Resolvers.mutatingCalls.all (fun p =>
      p.2.all (fun c => c.2 || c.1 == "Commit" || c.1 == "StoreData")) = true ∧
    GitBugModel.Gen.Resolvers.mutatingCalls.any (fun p => p.2.any (fun c => c.2)) = true := by
  decide

/-! ## "records exactly the requested change": nothing is left staged -/

theorem record_perm_aux (muts : List String) (σ : Rec) :
    ((record muts σ).stored ++ (record muts σ).staged).Perm (σ.stored ++ σ.staged ++ requested muts) := by
  induction muts generalizing σ with
  | nil => simp [record, requested]
  | cons n rest ih =>
    have h := ih (recStep σ n)
    simp only [record, List.foldl_cons] at h ⊢
    refine h.trans ?_
    unfold recStep requested
    by_cases hc : n = "Commit"
    · subst hc
      simp
    · have hne : (n == "Commit") = false := by simpa using hc
      by_cases hs : selfCommitting n = true
      · simp only [hne, hs, Bool.false_eq_true, ↓reduceIte, List.filter_cons, bne_iff_ne, ne_eq, hc,
          not_false_eq_true, decide_true]
        simp only [List.append_assoc]
        refine List.Perm.append_left _ ?_
        simpa using (List.perm_middle (l₁ := σ.staged) (a := n) (l₂ := List.filter (fun n => n != "Commit") rest)).symm
      · simp only [hne, hs, Bool.false_eq_true, ↓reduceIte, List.filter_cons, bne_iff_ne, ne_eq, hc,
          not_false_eq_true, decide_true]
        simp [List.append_assoc]

theorem record_staged_empty (muts : List String) :
    ∀ σ : Rec, commitsLast muts = true → (σ.staged = [] ∨ muts.contains "Commit" = true) →
      (record muts σ).staged = [] := by
  induction muts with
  | nil => intro σ _ h; simpa [record] using h
  | cons n rest ih =>
    intro σ hc h
    simp only [record, List.foldl_cons]
    unfold commitsLast at hc
    by_cases hn : n = "Commit"
    · subst hn
      simp only [beq_self_eq_true, ↓reduceIte] at hc
      exact ih _ hc (Or.inl (by simp [recStep]))
    · have hne : (n == "Commit") = false := by simpa using hn
      simp only [hne, Bool.false_eq_true, ↓reduceIte] at hc
      by_cases hs : selfCommitting n = true
      · simp only [hs, ↓reduceIte] at hc
        refine ih _ hc ?_
        rcases h with h | h
        · left; simp [recStep, hne, hs, h]
        · right
          simp only [List.contains_cons] at h
          have : ("Commit" == n) = false := by simpa using fun e => hn e.symm
          simpa [this] using h
      · simp only [hs, Bool.false_eq_true, ↓reduceIte, Bool.and_eq_true] at hc
        exact ih _ hc.2 (Or.inr hc.1)

/-- `recorded_general`: a program whose staging calls are all followed by a `Commit`, run to its
end from a clean bug, leaves nothing staged, and git holds exactly the requested operations
(each once) -/
theorem recorded_general (muts : List String) (h : commitsLast muts = true) :
    (record muts {}).staged = [] ∧ (record muts {}).stored.Perm (requested muts) := by
  have hs := record_staged_empty muts {} h (Or.inl rfl)
  refine ⟨hs, ?_⟩
  have := record_perm_aux muts {}
  simpa [hs] using this

/-- regenerated: in every resolver found in the source now, each staging call is followed by a
`Commit` (so a mutation that reports success has recorded its change in git) -/
theorem gen_recorded :
    GitBugModel.Gen.Resolvers.mutatingCalls.all (fun p => commitsLast (p.2.map (·.1))) = true := by
  decide

/-! ## non-vacuity -/

example : commitsLast ["AddCommentRaw", "OpenRaw", "Commit"] = true ∧
    commitsLast ["AddCommentRaw", "Commit", "OpenRaw"] = false := by decide
example : record ["AddCommentRaw", "Commit", "OpenRaw"] {} = { staged := ["OpenRaw"], stored := ["AddCommentRaw"] } := by decide


example : gated [.read "getBug", .gate, .mutate "AddCommentRaw", .mutate "Commit", .read "Snapshot"] = true ∧
    gated [.read "getBug", .mutate "AddCommentRaw", .gate] = false := by decide
example : run false (fun _ => false) [.read "getBug", .gate, .mutate "AddCommentRaw"] 0 [] = (.refused, []) ∧
    run true (fun _ => false) [.read "getBug", .gate, .mutate "AddCommentRaw"] 0 [] = (.done, ["AddCommentRaw"]) := by decide

/-- regenerated from api/auth: the gate keeps no state between requests (its only package-level
variables are the context key and the error value) and resolves the attached id in the repository
the caller hands over, on every call — the user of a request is a user of the repository the request
is aimed at, whatever was asked of another repository before -/
theorem gen_gate_stateless :
    GitBugModel.Gen.Resolvers.authVars = ["ErrNotAuthenticated", "identityCtxKey"] ∧
    GitBugModel.Gen.Resolvers.gateCalls = ["ctx.Value", "r.Identities().Resolve", "r.Identities"] := by
  decide

end GitBugModel.Props.C17

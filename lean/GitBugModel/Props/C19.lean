import GitBugModel.Model.LockFile
import GitBugModel.Gen.Commands
import GitBugModel.Lemmas.Atoi
/-!
# C19 — only one process at a time can open a repository's cache
-/
namespace GitBugModel.Props.C19
open GitBugModel.LockFile

/-! ## helper lemmas -/

theorem pcOf_ge (s : St) (i : Nat) (h : s.pcs.length ≤ i) : pcOf s i = .idle := by
  unfold pcOf
  simp [List.getD_eq_getElem?_getD, List.getElem?_eq_none h]

theorem lt_of_holding (s : St) (i : Nat) (h : pcOf s i = .holding) : i < s.pcs.length := by
  by_cases hl : i < s.pcs.length
  · exact hl
  · rw [pcOf_ge s i (by omega)] at h; cases h

theorem pcOf_setPc_self (s : St) (i : Nat) (pc : PC) (h : i < s.pcs.length) : pcOf (setPc s i pc) i = pc := by
  unfold pcOf setPc
  simp [List.getD_eq_getElem?_getD, List.getElem?_set, h]

theorem pcOf_setPc_ne (s : St) (i j : Nat) (pc : PC) (h : i ≠ j) : pcOf (setPc s i pc) j = pcOf s j := by
  unfold pcOf setPc
  simp [List.getD_eq_getElem?_getD, List.getElem?_set, h]

@[simp] theorem length_setPc (s : St) (i : Nat) (pc : PC) : (setPc s i pc).pcs.length = s.pcs.length := by
  simp [setPc]
@[simp] theorem file_setPc (s : St) (i : Nat) (pc : PC) : (setPc s i pc).file = s.file := rfl
@[simp] theorem file_setFile (s : St) (f : Option Nat) : (setFile s f).file = f := rfl
@[simp] theorem pcs_setFile (s : St) (f : Option Nat) : (setFile s f).pcs = s.pcs := rfl
@[simp] theorem pcOf_setFile (s : St) (f : Option Nat) (j : Nat) : pcOf (setFile s f) j = pcOf s j := rfl
@[simp] theorem alive_setFile (s : St) (f : Option Nat) (p : Nat) : alive (setFile s f) p = alive s p := rfl

/-- a holder after `setPc` is the process just set to `holding`, or was a holder before -/
theorem holding_setPc (s : St) (i j : Nat) (pc : PC) (h : pcOf (setPc s i pc) j = .holding) :
    (j = i ∧ pc = .holding) ∨ (j ≠ i ∧ pcOf s j = .holding) := by
  by_cases hij : i = j
  · subst hij
    have hl : i < s.pcs.length := by have := lt_of_holding _ _ h; simpa using this
    rw [pcOf_setPc_self s i pc hl] at h
    exact Or.inl ⟨rfl, h⟩
  · rw [pcOf_setPc_ne s i j pc hij] at h
    exact Or.inr ⟨fun e => hij e.symm, h⟩

theorem not_alive_of_dead_or_out (s : St) (p : Nat) (h : alive s p = false) : pcOf s p ≠ .holding := by
  intro hh
  have hl := lt_of_holding s p hh
  simp [alive, hl, hh] at h

/-! ## one open, alone -/

/-- `refuse_while_held`: while a live process holds the lock, an open is refused, names the
holder, and changes nothing (neither the lock file nor anybody's state) -/
theorem refuse_while_held (excl : Bool) (s : St) (h j : Nat)
    (hh : pcOf s h = .holding) (hf : s.file = some h) (hj : pcOf s j = .idle) :
    openAtomic excl s j = (s, .refused h) := by
  have hlt := lt_of_holding s h hh
  unfold openAtomic
  simp [hj, hf, alive, hlt, hh]

/-- `stale_recovered`: a lock left by a dead (or unknown) process does not stop the next open -/
theorem stale_recovered (excl : Bool) (s : St) (d j : Nat)
    (hf : s.file = some d) (hd : alive s d = false) (hj : pcOf s j = .idle) (hlt : j < s.pcs.length) :
    (openAtomic excl s j).2 = .acquired ∧ (openAtomic excl s j).1.file = some j ∧
    pcOf (openAtomic excl s j).1 j = .holding := by
  unfold openAtomic
  simp only [hj, hf, hd]
  unfold create
  simp only [file_setPc, file_setFile, Option.isSome_none, Bool.and_false, Bool.false_eq_true, if_false, true_and]
  exact pcOf_setPc_self _ _ _ (by simpa using hlt)

/-- an absent lock file: the open succeeds -/
theorem free_acquired (excl : Bool) (s : St) (j : Nat)
    (hf : s.file = none) (hj : pcOf s j = .idle) :
    (openAtomic excl s j).2 = .acquired ∧ (openAtomic excl s j).1.file = some j := by
  unfold openAtomic
  simp only [hj, hf]
  unfold create
  simp [hf]

/-- `close_releases` (cache level): closing removes the lock -/
theorem close_releases (s : St) (i : Nat) (h : pcOf s i = .holding) :
    (closeEv s i).1.file = none ∧ (closeEv s i).2 = .released := by
  simp [closeEv, h]

/-! ## every order of opens, closes and kills (opens not overlapping) -/

/-- holders own the file -/
def Inv (s : St) : Prop := ∀ i, pcOf s i = .holding → s.file = some i

theorem pcOf_init (n i : Nat) : pcOf (init n) i = .idle := by
  unfold init pcOf
  simp only [List.getD_eq_getElem?_getD]
  by_cases hl : i < n <;> simp [List.getElem?_replicate, hl]

theorem inv_init (n : Nat) : Inv (init n) := by
  intro i h; rw [pcOf_init] at h; cases h

/-- creating the lock when nobody else holds: the creator is the only holder -/
theorem inv_create (excl : Bool) (s : St) (i : Nat) (hn : ∀ j, j ≠ i → pcOf s j ≠ .holding)
    (hf : s.file = none) : Inv (create excl s i).1 := by
  intro j hj
  unfold create at hj ⊢
  simp only [hf, Option.isSome_none, Bool.and_false, Bool.false_eq_true, if_false] at hj ⊢
  rcases holding_setPc _ _ _ _ hj with ⟨rfl, _⟩ | ⟨hne, hh⟩
  · simp
  · exact absurd hh (hn j hne)

theorem inv_step (excl : Bool) (s : St) (e : Ev) (h : Inv s) : Inv (evStep excl s e).1 := by
  cases e with
  | kill i =>
    intro j hj
    simp only [evStep, kill] at hj ⊢
    rcases holding_setPc _ _ _ _ hj with ⟨_, hc⟩ | ⟨_, hh⟩
    · cases hc
    · simpa using h j hh
  | close i =>
    simp only [evStep, closeEv]
    by_cases hi : pcOf s i = .holding
    · simp only [hi, if_true]
      intro j hj
      rcases holding_setPc _ _ _ _ hj with ⟨_, hc⟩ | ⟨hne, hh⟩
      · cases hc
      · have h1 := h j (by simpa using hh)
        have h2 := h i hi
        rw [h1] at h2
        exact absurd (by injection h2) hne
    · simp only [hi, if_false]; exact h
  | «open» i =>
    simp only [evStep, openAtomic]
    cases hpc : pcOf s i with
    | idle =>
      simp only
      cases hf : s.file with
      | none =>
        simp only
        apply inv_create
        · intro j hne hj
          rw [pcOf_setPc_ne _ _ _ _ (fun e => hne e.symm)] at hj
          have := h j hj; rw [hf] at this; cases this
        · simp [hf]
      | some p =>
        simp only
        by_cases ha : alive s p = true
        · simp only [ha, if_true]; exact h
        · simp only [ha, Bool.false_eq_true, if_false]
          apply inv_create
          · intro j hne hj
            rw [pcOf_setPc_ne _ _ _ _ (fun e => hne e.symm)] at hj
            -- a holder `j` owns the file, so `j = p`, but `p` is not alive
            have hj' : pcOf s j = .holding := by simpa using hj
            have := h j hj'
            rw [hf] at this
            have hjp : p = j := by injection this
            subst hjp
            exact not_alive_of_dead_or_out s p (by simpa using ha) hj'
          · simp
    | sawNone => simp only; exact h
    | sawStale p => simp only; exact h
    | removed => simp only; exact h
    | holding => simp only; exact h
    | dead => simp only; exact h

theorem inv_run (excl : Bool) (es : List Ev) : ∀ s, Inv s → Inv (runEvs excl s es).1 := by
  induction es with
  | nil => intro s h; exact h
  | cons e t ih =>
    intro s h
    simp only [runEvs]
    exact ih _ (inv_step excl s e h)

/-- `mutex`: after any sequence of opens, closes and kills of any number of processes (each open
running to its end before the next event), at most one process holds the cache, and the lock file
names it. -/
theorem mutex (excl : Bool) (n : Nat) (es : List Ev) (i j : Nat)
    (hi : pcOf (runEvs excl (init n) es).1 i = .holding)
    (hj : pcOf (runEvs excl (init n) es).1 j = .holding) :
    i = j ∧ (runEvs excl (init n) es).1.file = some i := by
  have h := inv_run excl es (init n) (inv_init n)
  have h1 := h i hi
  have h2 := h j hj
  rw [h1] at h2
  exact ⟨by injection h2, h1⟩

/-- `never_remove_live` (non-overlapping opens): an open that finds the lock of a live process
leaves the file alone -/
theorem never_remove_live (excl : Bool) (s : St) (p j : Nat)
    (hf : s.file = some p) (ha : alive s p = true) (hj : pcOf s j = .idle) :
    (openAtomic excl s j).1 = s := by
  unfold openAtomic
  simp [hj, hf, ha]

/-! ## overlapping opens: file-operation interleavings -/

def runSteps (excl : Bool) : St → List Nat → St
  | s, [] => s
  | s, i :: is => runSteps excl (step excl s i).1 is

/-- KNOWN on the pinned tree (acknowledged by a TODO in `repoIsAvailable`): two processes that
open at the same time on a free repository both end up holding the cache; with an exclusive
creation of the lock file the second one fails instead -/
theorem race_create_pinned :
    holders (runSteps false (init 2) [0, 1, 0, 1]) = [0, 1] ∧
    holders (runSteps true (init 2) [0, 1, 0, 1]) = [0] := by decide

/-- … and two processes that both find the lock of a dead holder: the slower one removes the
fresh lock of the faster one (a live process) and both hold the cache — even with an exclusive
creation -/
theorem race_stale :
    let s : St := { file := some 2, pcs := [.idle, .idle, .dead] }
    holders (runSteps true s [0, 1, 0, 0, 1, 1]) = [0, 1] ∧
    (runSteps true s [0, 1, 0, 0]).file = some 0 ∧ (runSteps true s [0, 1, 0, 0, 1]).file = none := by
  decide

theorem pcOf_setPc_cases (s : St) (i j : Nat) (pc : PC) :
    pcOf (setPc s i pc) j = pc ∨ pcOf (setPc s i pc) j = pcOf s j := by
  by_cases hij : i = j
  · subst hij
    by_cases hl : i < s.pcs.length
    · exact Or.inl (pcOf_setPc_self s i pc hl)
    · right
      rw [pcOf_ge s i (by omega), pcOf_ge (setPc s i pc) i (by simp; omega)]
  · exact Or.inr (pcOf_setPc_ne s i j pc hij)

/-- not dead and not in the stale branch -/
def Good (pc : PC) : Prop := pc ≠ .dead ∧ pc ≠ .removed ∧ ∀ p, pc ≠ .sawStale p

theorem good_setPc (s : St) (i : Nat) (pc : PC) (hpc : Good pc) (h : ∀ j, Good (pcOf s j)) :
    ∀ j, Good (pcOf (setPc s i pc) j) := by
  intro j
  rcases pcOf_setPc_cases s i j pc with e | e <;> rw [e]
  · exact hpc
  · exact h j

/-- invariant for interleaved opens when nobody dies: the file names a holder, holders own it,
nobody is in the stale branch -/
def Inv2 (s : St) : Prop :=
  (∀ i, pcOf s i = .holding → s.file = some i) ∧
  (∀ p, s.file = some p → pcOf s p = .holding) ∧
  (∀ i, Good (pcOf s i))

theorem inv2_step (s : St) (i : Nat) (hlt : i < s.pcs.length) (h : Inv2 s) : Inv2 (step true s i).1 := by
  obtain ⟨h1, h2, h3⟩ := h
  unfold step
  cases hpc : pcOf s i with
  | idle =>
    simp only
    cases hf : s.file with
    | none =>
      simp only
      refine ⟨?_, ?_, good_setPc s i _ (by simp [Good]) h3⟩
      · intro j hj
        rcases holding_setPc _ _ _ _ hj with ⟨_, hc⟩ | ⟨_, hh⟩
        · cases hc
        · have := h1 j hh; rw [hf] at this; cases this
      · intro p hp; simp [hf] at hp
    | some p =>
      simp only
      have hp := h2 p hf
      have hl := lt_of_holding s p hp
      have : alive s p = true := by simp [alive, hl, hp]
      simp only [this, if_true]
      exact ⟨h1, h2, h3⟩
  | sawNone =>
    simp only [create]
    cases hf : s.file with
    | some p =>
      simp only [Option.isSome_some, Bool.and_self, if_true]
      refine ⟨?_, ?_, good_setPc s i _ (by simp [Good]) h3⟩
      · intro j hj
        rcases holding_setPc _ _ _ _ hj with ⟨_, hc⟩ | ⟨_, hh⟩
        · cases hc
        · simpa using h1 j hh
      · intro q hq
        have hq' := h2 q (by simpa using hq)
        have hne : i ≠ q := by intro e; subst e; rw [hpc] at hq'; cases hq'
        rw [pcOf_setPc_ne _ _ _ _ hne]; exact hq'
    | none =>
      simp only [Option.isSome_none, Bool.and_false, Bool.false_eq_true, if_false]
      refine ⟨?_, ?_, good_setPc (setFile s (some i)) i _ (by simp [Good]) (by simpa using h3)⟩
      · intro j hj
        rcases holding_setPc _ _ _ _ hj with ⟨rfl, _⟩ | ⟨_, hh⟩
        · simp
        · have := h1 j (by simpa using hh); rw [hf] at this; cases this
      · intro q hq
        have : i = q := by simpa using hq
        subst this
        exact pcOf_setPc_self _ _ _ (by simpa using hlt)
  | sawStale p => exact absurd hpc ((h3 i).2.2 p)
  | removed => exact absurd hpc ((h3 i).2.1)
  | dead => exact absurd hpc ((h3 i).1)
  | holding =>
    simp only
    refine ⟨?_, ?_, good_setPc (setFile s none) i _ (by simp [Good]) (by simpa using h3)⟩
    · intro j hj
      rcases holding_setPc _ _ _ _ hj with ⟨_, hc⟩ | ⟨hne, hh⟩
      · cases hc
      · have a := h1 j (by simpa using hh)
        have b := h1 i hpc
        rw [a] at b
        exact absurd (by injection b) hne
    · intro q hq; simp at hq

theorem inv2_init (n : Nat) : Inv2 (init n) := by
  have hidle : ∀ i, pcOf (init n) i = .idle := pcOf_init n
  refine ⟨?_, ?_, ?_⟩
  · intro i h; rw [hidle i] at h; cases h
  · intro p h; simp [init] at h
  · intro i; rw [hidle i]; simp [Good]

theorem step_length (excl : Bool) (s : St) (i : Nat) : (step excl s i).1.pcs.length = s.pcs.length := by
  unfold step
  cases pcOf s i <;> simp only
  · cases s.file with
    | none => simp [length_setPc]
    | some p => by_cases h : alive s p = true <;> simp [h, length_setPc]
  · unfold create; split <;> simp [length_setPc]
  · simp [length_setPc]
  · unfold create; split <;> simp [length_setPc]
  · simp [length_setPc]

/-- `mutex_excl_interleaved`: with an exclusive creation of the lock file, and as long as no
process dies, at most one process holds the cache under *every* interleaving of the file
operations of any number of processes (the create/create race of the pinned tree is gone; the
stale-lock race `race_stale` needs a dead holder) -/
theorem mutex_excl_interleaved (n : Nat) (sched : List Nat) (hs : ∀ i ∈ sched, i < n) (i j : Nat)
    (hi : pcOf (runSteps true (init n) sched) i = .holding)
    (hj : pcOf (runSteps true (init n) sched) j = .holding) : i = j := by
  have key : ∀ (sched : List Nat) (s : St), s.pcs.length = n → (∀ i ∈ sched, i < n) → Inv2 s →
      Inv2 (runSteps true s sched) := by
    intro sched
    induction sched with
    | nil => intro s _ _ h; exact h
    | cons a t ih =>
      intro s hl hs h
      simp only [runSteps]
      apply ih
      · rw [step_length]; exact hl
      · intro i hi; exact hs i (List.mem_cons_of_mem _ hi)
      · exact inv2_step s a (by rw [hl]; exact hs a List.mem_cons_self) h
  have h := key sched (init n) (by simp [init]) hs (inv2_init n)
  have a := h.1 i hi
  have b := h.1 j hj
  rw [a] at b
  injection b

/-! ## the command layer -/

/-- `command_releases`: when the loaders release the lock on their own failures, a command whose
`RunE` closes the backend leaves no lock behind, whatever fails -/
theorem command_releases (c : Cmd) (f : Fate)
    (hc : c.loader = .loadBackend ∨ c.loader = .loadBackendEnsureUser → c.closes = true) :
    lockLeftAtExit true c f = false := by
  unfold lockLeftAtExit
  cases hl : c.loader <;> simp_all <;> (repeat' split) <;> simp_all

/-- the pinned tree: a command that needs a user identity leaves its lock behind when none is
configured -/
theorem pinned_leaves_lock :
    lockLeftAtExit false { loader := .loadBackendEnsureUser, closes := true }
      { lockFails := false, buildFails := false, userFails := true, runFails := false } = true := by
  decide

/-! ## regenerated obligations: the commands and loaders found in the source now -/

/-- do the loaders of `commands/execenv/loading.go` close the backend in the failure branches that
come after the lock was taken (cache build error; no user identity)? -/
def loadersRelease : Bool :=
  let closesAfter (fn call : String) : Bool :=
    match GitBugModel.Gen.Commands.loaderFailures.lookup fn with
    | some l => l.any (fun b => b.1 == call) && l.all (fun b => b.1 != call || b.2)
    | none => false
  closesAfter "LoadBackend" "CacheBuildProgressBar" && closesAfter "LoadBackendEnsureUser" "GetUserIdentity"

def loaderOf : String → Option Loader
  | "none" => some .none
  | "LoadRepo" => some .loadRepo
  | "LoadRepoEnsureUser" => some .loadRepoEnsureUser
  | "LoadBackend" => some .loadBackend
  | "LoadBackendEnsureUser" => some .loadBackendEnsureUser
  | _ => none

def allFates : List Fate :=
  [true, false].flatMap fun a => [true, false].flatMap fun b => [true, false].flatMap fun c =>
    [true, false].map fun d => { lockFails := a, buildFails := b, userFails := c, runFails := d }

theorem allFates_complete (f : Fate) : f ∈ allFates := by
  obtain ⟨a, b, c, d⟩ := f
  cases a <;> cases b <;> cases c <;> cases d <;> decide

/-- every command literal has a loader the model knows, and leaves no lock in any fate -/
def commandOk (c : String × String × String × Bool × Bool) : Bool :=
  match loaderOf c.2.2.1 with
  | none => false
  | some l => allFates.all (fun f => !lockLeftAtExit loadersRelease { loader := l, closes := c.2.2.2.1 || c.2.2.2.2 } f)

/-- `gen_commands_release`: every cobra command found under commands/ releases the lock on every
exit path — whatever fails — given the loaders and wrappers found in the source now -/
theorem gen_commands_release :
    GitBugModel.Gen.Commands.commands.all commandOk = true ∧
    (GitBugModel.Gen.Commands.commands.filter (fun c => c.2.2.1 == "LoadBackend" || c.2.2.1 == "LoadBackendEnsureUser")).length ≥ 30 := by
  decide

/-- … spelled out for each fate -/
theorem gen_commands_release_all (c : String × String × String × Bool × Bool)
    (hc : c ∈ GitBugModel.Gen.Commands.commands) (f : Fate) :
    ∃ l, loaderOf c.2.2.1 = some l ∧
      lockLeftAtExit loadersRelease { loader := l, closes := c.2.2.2.1 || c.2.2.2.2 } f = false := by
  have h := List.all_eq_true.mp gen_commands_release.1 c hc
  unfold commandOk at h
  cases hl : loaderOf c.2.2.1 with
  | none => simp [hl] at h
  | some l =>
    simp only [hl] at h
    have := List.all_eq_true.mp h f (allFates_complete f)
    exact ⟨l, rfl, by simpa using this⟩

/-- the lock file is created exclusively in the source now (what `mutex_excl_interleaved` needs) -/
theorem gen_lock_exclusive : GitBugModel.Gen.Commands.lockExclusive = true := by decide

/-- regenerated from commands/webui.go: `webui` opens the cache inside its run function (its loader
only opens the repository, so the command table above does not see it); every return after that —
the cache build failing, the configuration unreadable, the server unable to start — closes the cache
first; the last return is reached after the signal handler closed it.  (Before the repair the
server-cannot-start return left the lock behind: found with the binary, `c19Webui`.) -/
theorem gen_webui_releases :
    GitBugModel.Gen.Commands.webuiReturns = ["closed", "closed", "closed", "final"] := by
  decide

/-! ## the content of the lock file -/

/-- a pid that is written is read back: for every pid with fewer digits than the length at which
the reader gives up (and a reader that reads at least that far) -/
theorem lock_roundtrip (limit refuse pid : Nat) (hr : 0 < refuse - 1) (hl : refuse ≤ limit + 1) (hp : pid < 10 ^ (refuse - 1)) :
    readLock limit refuse (renderPid pid) = .ok (pid : Int) := by
  have hlen : (Nat.repr pid).length ≤ refuse - 1 := (Nat.length_repr_le_iff hr).mpr hp
  have htake : (Nat.repr pid).toList.take limit = (Nat.repr pid).toList := by
    apply List.take_of_length_le
    rw [String.length_toList]; omega
  unfold readLock renderPid
  rw [Nat.toString_eq_repr]
  simp only [htake, utf8Len_repr]
  rw [if_neg (by omega), atoi_repr]

/-- a pid too long for the reader is refused, not misread -/
theorem lock_too_long (limit refuse pid : Nat) (hl : refuse ≤ limit) (hp : 10 ^ (refuse - 1) ≤ pid) (hr : 0 < refuse - 1) :
    readLock limit refuse (renderPid pid) = .error .tooLong := by
  have hlen : ¬ (Nat.repr pid).length ≤ refuse - 1 := by
    rw [Nat.length_repr_le_iff hr]; omega
  unfold readLock renderPid
  rw [Nat.toString_eq_repr]
  simp only [utf8Len_repr]
  rw [if_pos (by omega)]

/-- regenerated from cache/repo_cache.go: the pid is written with %d, read through a reader of
`lockReadLimit` bytes, refused when `len(buf) >= lockRefuseLen`, parsed with Atoi — and those
numbers leave room for every pid the kernel can hand out (PID_MAX_LIMIT = 2^22 = 4194304), so by
`lock_roundtrip` the lock of every process, live or dead, is read back as its pid. -/
theorem gen_lock_content :
    GitBugModel.Gen.Commands.lockFormat = "%d" ∧ GitBugModel.Gen.Commands.lockRefuseOp = ">=" ∧
    GitBugModel.Gen.Commands.lockParser = "Atoi(string(buf))" ∧
    GitBugModel.Gen.Commands.lockRefuseLen ≤ GitBugModel.Gen.Commands.lockReadLimit + 1 ∧
    (4194304 : Int) < 10 ^ (GitBugModel.Gen.Commands.lockRefuseLen - 1).toNat := by
  decide

/-- an empty lock file — what a process leaves that dies between creating the file (exclusively)
and writing its pid into it — is not a number: every later open answers with the parser's error
and leaves the file where it is.  Nothing in the source removes it (known finding
`C19/empty-lock-never-recovered`, replayed on real processes through the yield point
`lock:after-create`). -/
theorem empty_lock_not_a_number (limit refuse : Nat) (hr : 0 < refuse) :
    readLock limit refuse "" = .error .notANumber := by
  unfold readLock
  have h0 : utf8Len "".toList = 0 := by decide
  have ht : "".toList.take limit = [] := by simp
  simp only [h0, ht, Nat.min_zero]
  rw [if_neg (by omega)]
  rfl

example : readLock 10 10 (renderPid 4194303) = .ok 4194303 := lock_roundtrip 10 10 4194303 (by decide) (by decide) (by decide)
example : readLock 10 7 (renderPid 4194303) = .error .tooLong := lock_too_long 10 7 4194303 (by decide) (by decide) (by decide)


/-! ## non-vacuity -/

example : (runEvs false (init 3) [.open 0, .open 1, .kill 0, .open 1, .open 2, .close 1, .open 2]).2 =
    [.acquired, .refused 0, .none, .acquired, .refused 1, .released, .acquired] := by decide

end GitBugModel.Props.C19

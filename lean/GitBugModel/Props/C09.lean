import GitBugModel.Model.Identity
import GitBugModel.Lemmas.Text
/-!
# C09 — identity histories are append-only and merged fast-forward only
-/
namespace GitBugModel.Props.C09
open GitBugModel.Identity

/-- The merge, stated on what is left of the two chains: `none` = diverged; `some sfx` = the
remote versions to append (empty when the remote is not ahead). -/
def spec : List Version → List Version → Option (List Version)
  | [], rem => some rem
  | _ :: _, [] => some []
  | l :: ls, r :: rs => if l.commit != r.commit then none else spec ls rs

def lastCommit (sfx : List Version) (dflt : String) : String :=
  match sfx.getLast? with
  | some v => v.commit
  | none => dflt

/-- The loop of `Identity.Merge` computes `spec`. -/
theorem mergeLoop_eq_spec (rem : List Version) :
    ∀ (loc : List Version) (j : Nat) (m : Bool) (last : String), j ≤ loc.length →
      mergeLoop loc j m last rem =
        (spec (loc.drop j) rem).map (fun sfx => (loc ++ sfx, m || !sfx.isEmpty, lastCommit sfx last)) := by
  induction rem with
  | nil =>
    intro loc j m last hj
    have : spec (loc.drop j) [] = some [] := by cases loc.drop j <;> rfl
    simp [mergeLoop, this, lastCommit]
  | cons ov rest ih =>
    intro loc j m last hj
    unfold mergeLoop
    by_cases hlen : loc.length = j
    · have hdrop : loc.drop j = [] := by rw [← hlen]; simp
      have hget : (loc ++ [ov])[j]? = some ov := by rw [← hlen]; simp
      simp only [hlen, beq_self_eq_true, if_true, hget, bne_self_eq_false, Bool.false_eq_true, if_false]
      rw [ih (loc ++ [ov]) (j + 1) true ov.commit (by simp; omega)]
      have hdrop2 : (loc ++ [ov]).drop (j + 1) = [] := by rw [← hlen]; simp
      simp only [hdrop, hdrop2, spec, Option.map_some]
      congr 1
      simp only [List.append_assoc, List.singleton_append, Bool.true_or, List.isEmpty_cons, Bool.not_false, Bool.or_true]
      congr 2
      cases rest with
      | nil => simp [lastCommit]
      | cons r rs =>
        have : (r :: rs).getLast? = some ((r :: rs).getLast (by simp)) := List.getLast?_eq_some_getLast (by simp)
        simp [lastCommit, List.getLast?_cons_cons, this]
    · have hlt : j < loc.length := by omega
      have hne : (loc.length == j) = false := by simpa using hlen
      simp only [hne, Bool.false_eq_true, if_false]
      have hget : loc[j]? = some loc[j] := List.getElem?_eq_getElem hlt
      have hdrop : loc.drop j = loc[j] :: loc.drop (j + 1) := List.drop_eq_getElem_cons hlt
      simp only [hget, hdrop, spec]
      by_cases hc : loc[j].commit = ov.commit
      · simp only [hc, bne_self_eq_false, Bool.false_eq_true, if_false]
        exact ih loc (j + 1) m last hlt
      · have : (loc[j].commit != ov.commit) = true := by simpa using hc
        simp [this]

theorem merge_eq_spec (loc remote : List Version) :
    merge loc remote = match spec loc remote with
      | none => .nonFastForward loc
      | some [] => .nothing loc
      | some (v :: sfx) => .updated (loc ++ v :: sfx) (lastCommit (v :: sfx) "") := by
  unfold merge
  rw [mergeLoop_eq_spec remote loc 0 false "" (Nat.zero_le _)]
  simp only [List.drop_zero]
  cases h : spec loc remote with
  | none => rfl
  | some sfx => cases sfx <;> simp

theorem spec_extend (loc s : List Version) : spec loc (loc ++ s) = some s := by
  induction loc with
  | nil => rfl
  | cons l ls ih => simp [spec, ih]

theorem spec_prefix (loc : List Version) (k : Nat) : spec loc (loc.take k) = some [] := by
  induction loc generalizing k with
  | nil => simp [spec]
  | cons l ls ih =>
    cases k with
    | zero => rfl
    | succ k => simp [spec, ih]

theorem spec_diverge (p ls rs : List Version) (l r : Version) (h : l.commit ≠ r.commit) :
    spec (p ++ l :: ls) (p ++ r :: rs) = none := by
  induction p with
  | nil => simp [spec, h]
  | cons a t ih => simp [spec, ih]

/-- `idMerge_extend`: the remote history extends the local one: the local becomes equal to it,
the ref moves to its last commit, and the merge is reported as an update. -/
theorem idMerge_extend (loc s : List Version) (hs : s ≠ []) :
    merge loc (loc ++ s) = .updated (loc ++ s) (lastCommit s "") := by
  rw [merge_eq_spec, spec_extend]
  cases s with
  | nil => exact absurd rfl hs
  | cons v t => rfl

/-- `idMerge_behind`: the local history is equal to or ahead of the remote one: nothing changes. -/
theorem idMerge_behind (loc : List Version) (k : Nat) : merge loc (loc.take k) = .nothing loc := by
  rw [merge_eq_spec, spec_prefix]

theorem idMerge_equal (loc : List Version) : merge loc loc = .nothing loc := by
  have := idMerge_behind loc loc.length
  simpa using this

/-- `idMerge_diverge`: the two histories differ at some position after a common prefix: the
remote is refused and the local is untouched. -/
theorem idMerge_diverge (p ls rs : List Version) (l r : Version) (h : l.commit ≠ r.commit) :
    merge (p ++ l :: ls) (p ++ r :: rs) = .nonFastForward (p ++ l :: ls) := by
  rw [merge_eq_spec, spec_diverge p ls rs l r h]

/-- append-only: whatever the merge does, the local history is a prefix of the result -/
theorem merge_append_only (loc remote : List Version) :
    match merge loc remote with
    | .updated vs _ => ∃ sfx, vs = loc ++ sfx ∧ sfx ≠ []
    | .nothing vs => vs = loc
    | .nonFastForward vs => vs = loc := by
  rw [merge_eq_spec]
  cases spec loc remote with
  | none => rfl
  | some sfx =>
    cases sfx with
    | nil => rfl
    | cons v t => exact ⟨v :: t, rfl, by simp⟩

/-- the identity's id is the id of its first version: it never changes -/
theorem merge_keeps_first (loc remote : List Version) (h : loc ≠ []) :
    match merge loc remote with
    | .updated vs _ | .nothing vs | .nonFastForward vs => vs.head? = loc.head? := by
  have := merge_append_only loc remote
  cases hm : merge loc remote with
  | updated vs r =>
    rw [hm] at this
    obtain ⟨sfx, rfl, _⟩ := this
    cases loc with
    | nil => exact absurd rfl h
    | cons a t => rfl
  | nothing vs => rw [hm] at this; simp only at this ⊢; rw [this]
  | nonFastForward vs => rw [hm] at this; simp only at this ⊢; rw [this]

/-! ## validation -/

/-! ## `identity.MergeAll`: an invalid remote identity never moves the local one -/

/-- `mergeAll_invalid_untouched`: a remote identity that does not validate (decreasing or dropped
clocks, no name and login, unsafe characters, …) is refused and the local history is left as it is —
also when it extends the local history -/
theorem mergeAll_invalid_untouched (loc remote : List Version) (h : validate remote = false) :
    mergeAll loc remote = .invalidRemote loc ∧ (mergeAll loc remote).chain = loc := by
  simp [mergeAll, h, MergeAllRes.chain]

/-- `mergeAll_updated_valid`: whenever the merge is reported as an update, the local history has
become the remote one, which is valid -/
theorem mergeAll_updated_valid (loc s : List Version) (hs : s ≠ []) (vs : List Version) (ref : String)
    (h : mergeAll loc (loc ++ s) = .merged (.updated vs ref)) :
    vs = loc ++ s ∧ validate vs = true := by
  unfold mergeAll at h
  split at h
  · rename_i hv
    rw [idMerge_extend loc s hs] at h
    simp only [MergeAllRes.merged.injEq, MergeRes.updated.injEq] at h
    exact ⟨h.1.symm, h.1 ▸ hv⟩
  · cases h

/-- `mergeAll_valid_is_merge`: for a valid remote identity MergeAll is Identity.Merge -/
theorem mergeAll_valid_is_merge (loc remote : List Version) (h : validate remote = true) :
    mergeAll loc remote = .merged (merge loc remote) := by
  simp [mergeAll, h]


/-- `validate_spec`: an identity is valid iff it has a version, every version has valid fields,
and along the chain no clock decreases or disappears. -/
theorem validate_iff (vs : List Version) :
    validate vs = true ↔ vs ≠ [] ∧ validateFrom [] vs = true := by
  unfold validate
  cases vs <;> simp

theorem validateFrom_cons (last : List (String × Nat)) (v : Version) (rest : List Version) :
    validateFrom last (v :: rest) = true ↔
      v.fieldsValid = true ∧ timesOk last v.times = true ∧ validateFrom (updateTimes last v.times) rest = true := by
  simp [validateFrom, Bool.and_eq_true, and_assoc]

/-- a version without name and login is rejected -/
theorem rejects_nameless (last : List (String × Nat)) (v : Version) (rest : List Version)
    (h : v.nameEmpty = true ∧ v.loginEmpty = true) : validateFrom last (v :: rest) = false := by
  simp [validateFrom, Version.fieldsValid, h.1, h.2]

/-- unsafe characters in name, login or email are rejected -/
theorem rejects_unsafe (last : List (String × Nat)) (v : Version) (rest : List Version)
    (h : v.nameSafe = false ∨ v.loginSafe = false ∨ v.emailSafe = false) : validateFrom last (v :: rest) = false := by
  rcases h with h | h | h <;> simp [validateFrom, Version.fieldsValid, h]

/-- a decreasing clock is rejected -/
theorem rejects_decreasing_clock (last : List (String × Nat)) (v : Version) (rest : List Version)
    (name : String) (told tnew : Nat) (hl : (name, told) ∈ last) (hn : lookupTime v.times name = some tnew)
    (hlt : tnew < told) : validateFrom last (v :: rest) = false := by
  have : timesOk last v.times = false := by
    unfold timesOk
    rw [List.all_eq_false]
    refine ⟨(name, told), hl, ?_⟩
    simp [hn]; omega
  simp [validateFrom, this]

/-- a dropped clock is rejected -/
theorem rejects_dropped_clock (last : List (String × Nat)) (v : Version) (rest : List Version)
    (name : String) (told : Nat) (hl : (name, told) ∈ last) (hn : lookupTime v.times name = none) :
    validateFrom last (v :: rest) = false := by
  have : timesOk last v.times = false := by
    unfold timesOk
    rw [List.all_eq_false]
    exact ⟨(name, told), hl, by simp [hn]⟩
  simp [validateFrom, this]

/-- `control_character_rejected`: a version whose name, login or email holds a control character
(U+0000..U+001F, U+007F..U+009F — tabs and line breaks included) is rejected, the safety of the
texts being decided by the model of `text.SafeOneLine` -/
theorem control_character_rejected (last : List (String × Nat)) (v : Version) (rest : List Version)
    (name login email : List Char) (c : Char) (hc : c ∈ name ∨ c ∈ login ∨ c ∈ email)
    (h : GitBugModel.Text.isControl c = true) :
    validateFrom last (v.withTexts name login email :: rest) = false := by
  apply rejects_unsafe
  rcases hc with hc | hc | hc
  · exact Or.inl (GitBugModel.Lemmas.Text.control_unsafe name c hc h)
  · exact Or.inr (Or.inl (GitBugModel.Lemmas.Text.control_unsafe login c hc h))
  · exact Or.inr (Or.inr (GitBugModel.Lemmas.Text.control_unsafe email c hc h))

/-- texts that went through `CleanupOneLine` never make a version unsafe -/
theorem cleaned_texts_safe (v : Version) (name login email : List Char) :
    let v' := v.withTexts (GitBugModel.Text.cleanupOneLine name) (GitBugModel.Text.cleanupOneLine login)
      (GitBugModel.Text.cleanupOneLine email)
    v'.nameSafe = true ∧ v'.loginSafe = true ∧ v'.emailSafe = true := by
  simp [Version.withTexts, GitBugModel.Lemmas.Text.cleanupOneLine_safe]

/-! ## non-vacuity -/

private def v (c : String) (t : Nat) : Version := { commit := c, times := [("bugs-edit", t)] }

example : merge [v "a" 1, v "b" 2] [v "a" 1, v "b" 2, v "c" 3, v "d" 4]
    = .updated [v "a" 1, v "b" 2, v "c" 3, v "d" 4] "d" := by decide
example : merge [v "a" 1, v "b" 2, v "c" 3] [v "a" 1, v "b" 2] = .nothing [v "a" 1, v "b" 2, v "c" 3] := by decide
example : merge [v "a" 1, v "b" 2] [v "a" 1, v "x" 2, v "y" 3] = .nonFastForward [v "a" 1, v "b" 2] := by decide
example : validate [v "a" 1, v "b" 2] = true ∧ validate [v "a" 2, v "b" 1] = false ∧ validate [] = false ∧
    validate [v "a" 1, { commit := "b", times := [] }] = false := by decide

example : mergeAll [v "a" 1, v "b" 2] [v "a" 1, v "b" 2, v "c" 1] = .invalidRemote [v "a" 1, v "b" 2] := by decide
example : mergeAll [v "a" 1, v "b" 2] [v "a" 1, v "b" 2, v "c" 3]
    = .merged (.updated [v "a" 1, v "b" 2, v "c" 3] "c") := by decide

end GitBugModel.Props.C09

import GitBugModel.Model.Import
import GitBugModel.Gen.Bridge
/-!
# C16 — bridge imports are idempotent, incremental and resumable after failures
-/
namespace GitBugModel.Props.C16
open GitBugModel.Import

/-- the local bug already says what this event says -/
def Absorbed (desc : String) (st : St) (e : Ev) : Prop :=
  match e.kind with
  | .ignored => True
  | .comment body => e.id ∈ st.known ∧ bodyOf st e.id = some body
  | .descNote => e.id ∈ st.known ∨ st.desc = desc
  | .title | .label | .state => e.id ∈ st.known

theorem find_setBody_self (cs : List (String × String)) (id body : String) :
    ((setBody cs id body).find? (fun p => p.1 == id)).map (·.2) = some body := by
  unfold setBody
  by_cases h : cs.any (fun p => p.1 == id) = true
  · simp only [h, if_true]
    induction cs with
    | nil => simp at h
    | cons x t ih =>
      simp only [List.map_cons, List.find?_cons]
      by_cases hx : (x.1 == id) = true
      · simp [hx]
      · simp only [hx, Bool.false_eq_true, if_false]
        simp only [List.any_cons, hx, Bool.false_or] at h
        exact ih h
  · simp only [h, Bool.false_eq_true, if_false]
    rw [List.find?_append]
    have : cs.find? (fun p => p.1 == id) = none := by
      rw [List.find?_eq_none]
      intro x hx hxn
      exact h (List.any_eq_true.mpr ⟨x, hx, hxn⟩)
    simp [this]

/-- rewriting the entries of `id` does not change what is found for another id -/
theorem find_map_other (cs : List (String × String)) (id id' body : String) (hne : id' ≠ id) :
    (cs.map (fun p => if (p.1 == id) = true then (id, body) else p)).find? (fun p => p.1 == id') =
      cs.find? (fun p => p.1 == id') := by
  induction cs with
  | nil => rfl
  | cons x t ih =>
    simp only [List.map_cons, List.find?_cons]
    by_cases hx : (x.1 == id) = true
    · have hx' : x.1 = id := by simpa using hx
      have h1 : ((id, body).1 == id') = false := by
        simp only [beq_eq_false_iff_ne]; exact fun e => hne e.symm
      have h2 : (x.1 == id') = false := by
        rw [hx']; simp only [beq_eq_false_iff_ne]; exact fun e => hne e.symm
      simp only [hx, if_true, h1, h2]
      exact ih
    · simp only [hx, Bool.false_eq_true, if_false]
      by_cases hx2 : (x.1 == id') = true
      · simp [hx2]
      · simp only [hx2, Bool.false_eq_true, if_false]
        exact ih

theorem find_setBody_other (cs : List (String × String)) (id id' body : String) (hne : id' ≠ id) :
    ((setBody cs id body).find? (fun p => p.1 == id')).map (·.2) = (cs.find? (fun p => p.1 == id')).map (·.2) := by
  unfold setBody
  by_cases h : cs.any (fun p => p.1 == id) = true
  · simp only [h, if_true]
    rw [find_map_other cs id id' body hne]
  · simp only [h, Bool.false_eq_true, if_false]
    rw [List.find?_append]
    cases hf : cs.find? (fun p => p.1 == id') with
    | some v => simp
    | none =>
      have : ((id, body).1 == id') = false := by
        simp only [beq_eq_false_iff_ne]; exact fun e => hne e.symm
      simp [List.find?_cons, this]

/-- the value of `step` in each case -/
theorem step_comment_new (desc : String) (st : St) (e : Ev) (body : String) (hk : e.kind = .comment body) (hkn : e.id ∉ st.known) :
    step desc st e = ({ st with known := e.id :: st.known, comments := setBody st.comments e.id body }, 1) := by
  unfold step; rw [hk]; simp only [hkn, if_false]
theorem step_comment_same (desc : String) (st : St) (e : Ev) (body : String) (hk : e.kind = .comment body) (hkn : e.id ∈ st.known)
    (hb : bodyOf st e.id = some body) : step desc st e = (st, 0) := by
  unfold step; rw [hk]; simp only [hkn, hb, if_true]
theorem step_comment_edit (desc : String) (st : St) (e : Ev) (body : String) (hk : e.kind = .comment body) (hkn : e.id ∈ st.known)
    (hb : bodyOf st e.id ≠ some body) : step desc st e = ({ st with comments := setBody st.comments e.id body }, 1) := by
  unfold step; rw [hk]; simp only [hkn, hb, if_true, if_false]
theorem step_desc_known (desc : String) (st : St) (e : Ev) (hk : e.kind = .descNote) (hkn : e.id ∈ st.known) : step desc st e = (st, 0) := by
  unfold step; rw [hk]; simp only [hkn, if_true]
theorem step_desc_same (desc : String) (st : St) (e : Ev) (hk : e.kind = .descNote) (hkn : e.id ∉ st.known) (hd : st.desc = desc) :
    step desc st e = (st, 0) := by
  unfold step; rw [hk]; simp only [hkn, hd, if_false, if_true]
theorem step_desc_new (desc : String) (st : St) (e : Ev) (hk : e.kind = .descNote) (hkn : e.id ∉ st.known) (hd : st.desc ≠ desc) :
    step desc st e = ({ st with known := e.id :: st.known, desc := desc }, 1) := by
  unfold step; rw [hk]; simp only [hkn, hd, if_false]
theorem step_simple_known (desc : String) (st : St) (e : Ev) (hk : e.kind = .title ∨ e.kind = .label ∨ e.kind = .state) (hkn : e.id ∈ st.known) :
    step desc st e = (st, 0) := by
  unfold step; rcases hk with hk | hk | hk <;> rw [hk] <;> simp only [hkn, if_true]
theorem step_simple_new (desc : String) (st : St) (e : Ev) (hk : e.kind = .title ∨ e.kind = .label ∨ e.kind = .state) (hkn : e.id ∉ st.known) :
    step desc st e = ({ st with known := e.id :: st.known }, 1) := by
  unfold step; rcases hk with hk | hk | hk <;> rw [hk] <;> simp only [hkn, if_false]
theorem step_ignored (desc : String) (st : St) (e : Ev) (hk : e.kind = .ignored) : step desc st e = (st, 0) := by
  unfold step; rw [hk]

/-- an absorbed event costs nothing and changes nothing -/
theorem step_absorbed (desc : String) (st : St) (e : Ev) (h : Absorbed desc st e) : step desc st e = (st, 0) := by
  unfold Absorbed at h
  cases hk : e.kind with
  | ignored => exact step_ignored desc st e hk
  | comment body => rw [hk] at h; exact step_comment_same desc st e body hk h.1 h.2
  | descNote =>
    rw [hk] at h
    by_cases hkn : e.id ∈ st.known
    · exact step_desc_known desc st e hk hkn
    · rcases h with h | h
      · exact absurd h hkn
      · exact step_desc_same desc st e hk hkn h
  | title => rw [hk] at h; exact step_simple_known desc st e (Or.inl hk) h
  | label => rw [hk] at h; exact step_simple_known desc st e (Or.inr (Or.inl hk)) h
  | state => rw [hk] at h; exact step_simple_known desc st e (Or.inr (Or.inr hk)) h

/-- after an event was processed it is absorbed -/
theorem step_absorbs (desc : String) (st : St) (e : Ev) : Absorbed desc (step desc st e).1 e := by
  cases hk : e.kind with
  | ignored => unfold Absorbed; rw [hk]; trivial
  | comment body =>
    by_cases hkn : e.id ∈ st.known
    · by_cases hb : bodyOf st e.id = some body
      · rw [step_comment_same desc st e body hk hkn hb]; unfold Absorbed; rw [hk]; exact ⟨hkn, hb⟩
      · rw [step_comment_edit desc st e body hk hkn hb]; unfold Absorbed; rw [hk]
        exact ⟨hkn, find_setBody_self _ _ _⟩
    · rw [step_comment_new desc st e body hk hkn]; unfold Absorbed; rw [hk]
      exact ⟨List.mem_cons_self, find_setBody_self _ _ _⟩
  | descNote =>
    by_cases hkn : e.id ∈ st.known
    · rw [step_desc_known desc st e hk hkn]; unfold Absorbed; rw [hk]; exact Or.inl hkn
    · by_cases hd : st.desc = desc
      · rw [step_desc_same desc st e hk hkn hd]; unfold Absorbed; rw [hk]; exact Or.inr hd
      · rw [step_desc_new desc st e hk hkn hd]; unfold Absorbed; rw [hk]; exact Or.inr rfl
  | title =>
    by_cases hkn : e.id ∈ st.known
    · rw [step_simple_known desc st e (Or.inl hk) hkn]; unfold Absorbed; rw [hk]; exact hkn
    · rw [step_simple_new desc st e (Or.inl hk) hkn]; unfold Absorbed; rw [hk]; exact List.mem_cons_self
  | label =>
    by_cases hkn : e.id ∈ st.known
    · rw [step_simple_known desc st e (Or.inr (Or.inl hk)) hkn]; unfold Absorbed; rw [hk]; exact hkn
    · rw [step_simple_new desc st e (Or.inr (Or.inl hk)) hkn]; unfold Absorbed; rw [hk]; exact List.mem_cons_self
  | state =>
    by_cases hkn : e.id ∈ st.known
    · rw [step_simple_known desc st e (Or.inr (Or.inr hk)) hkn]; unfold Absorbed; rw [hk]; exact hkn
    · rw [step_simple_new desc st e (Or.inr (Or.inr hk)) hkn]; unfold Absorbed; rw [hk]; exact List.mem_cons_self

/-- every case of `step` at once: the new state is the old one, or extends `known` by the id,
possibly rewrites that id's comment text, possibly sets the description to `desc` -/
theorem step_shape (desc : String) (st : St) (f : Ev) :
    let s := (step desc st f).1
    (∀ x, x ∈ st.known → x ∈ s.known) ∧
    (∀ id, id ≠ f.id → bodyOf s id = bodyOf st id) ∧
    (s.desc = st.desc ∨ s.desc = desc) := by
  have other : ∀ (body : String) (kn : List String) (d : String) id, id ≠ f.id →
      bodyOf { known := kn, comments := setBody st.comments f.id body, desc := d } id = bodyOf st id := by
    intro body kn d id hne
    unfold bodyOf; exact find_setBody_other _ _ _ _ hne
  cases hk : f.kind with
  | ignored => rw [step_ignored desc st f hk]; exact ⟨fun _ h => h, fun _ _ => rfl, Or.inl rfl⟩
  | comment body =>
    by_cases hkn : f.id ∈ st.known
    · by_cases hb : bodyOf st f.id = some body
      · rw [step_comment_same desc st f body hk hkn hb]; exact ⟨fun _ h => h, fun _ _ => rfl, Or.inl rfl⟩
      · rw [step_comment_edit desc st f body hk hkn hb]
        exact ⟨fun _ h => h, fun id hne => other body _ _ id hne, Or.inl rfl⟩
    · rw [step_comment_new desc st f body hk hkn]
      exact ⟨fun _ h => List.mem_cons_of_mem _ h, fun id hne => other body _ _ id hne, Or.inl rfl⟩
  | descNote =>
    by_cases hkn : f.id ∈ st.known
    · rw [step_desc_known desc st f hk hkn]; exact ⟨fun _ h => h, fun _ _ => rfl, Or.inl rfl⟩
    · by_cases hd : st.desc = desc
      · rw [step_desc_same desc st f hk hkn hd]; exact ⟨fun _ h => h, fun _ _ => rfl, Or.inl rfl⟩
      · rw [step_desc_new desc st f hk hkn hd]
        exact ⟨fun _ h => List.mem_cons_of_mem _ h, fun _ _ => rfl, Or.inr rfl⟩
  | title =>
    by_cases hkn : f.id ∈ st.known
    · rw [step_simple_known desc st f (Or.inl hk) hkn]; exact ⟨fun _ h => h, fun _ _ => rfl, Or.inl rfl⟩
    · rw [step_simple_new desc st f (Or.inl hk) hkn]; exact ⟨fun _ h => List.mem_cons_of_mem _ h, fun _ _ => rfl, Or.inl rfl⟩
  | label =>
    by_cases hkn : f.id ∈ st.known
    · rw [step_simple_known desc st f (Or.inr (Or.inl hk)) hkn]; exact ⟨fun _ h => h, fun _ _ => rfl, Or.inl rfl⟩
    · rw [step_simple_new desc st f (Or.inr (Or.inl hk)) hkn]; exact ⟨fun _ h => List.mem_cons_of_mem _ h, fun _ _ => rfl, Or.inl rfl⟩
  | state =>
    by_cases hkn : f.id ∈ st.known
    · rw [step_simple_known desc st f (Or.inr (Or.inr hk)) hkn]; exact ⟨fun _ h => h, fun _ _ => rfl, Or.inl rfl⟩
    · rw [step_simple_new desc st f (Or.inr (Or.inr hk)) hkn]; exact ⟨fun _ h => List.mem_cons_of_mem _ h, fun _ _ => rfl, Or.inl rfl⟩

theorem step_known_mono (desc : String) (st : St) (e : Ev) (x : String) (h : x ∈ st.known) :
    x ∈ (step desc st e).1.known := (step_shape desc st e).1 x h

theorem step_body_other (desc : String) (st : St) (f : Ev) (id : String) (hne : id ≠ f.id) :
    bodyOf (step desc st f).1 id = bodyOf st id := (step_shape desc st f).2.1 id hne

theorem step_desc (desc : String) (st : St) (f : Ev) : (step desc st f).1.desc = st.desc ∨ (step desc st f).1.desc = desc :=
  (step_shape desc st f).2.2

/-- processing another event (another id) keeps an absorbed event absorbed -/
theorem step_keeps (desc : String) (st : St) (e f : Ev) (hne : e.id ≠ f.id) (h : Absorbed desc st e) :
    Absorbed desc (step desc st f).1 e := by
  unfold Absorbed at h ⊢
  cases hk : e.kind with
  | ignored => trivial
  | comment body =>
    simp only [hk] at h ⊢
    exact ⟨step_known_mono desc st f e.id h.1, by rw [step_body_other desc st f e.id hne]; exact h.2⟩
  | descNote =>
    simp only [hk] at h ⊢
    rcases h with h | h
    · exact Or.inl (step_known_mono desc st f e.id h)
    · right
      rcases step_desc desc st f with h2 | h2
      · rw [h2]; exact h
      · exact h2
  | title => simp only [hk] at h ⊢; exact step_known_mono desc st f e.id h
  | label => simp only [hk] at h ⊢; exact step_known_mono desc st f e.id h
  | state => simp only [hk] at h ⊢; exact step_known_mono desc st f e.id h

theorem pass_keeps (desc : String) (evs : List Ev) :
    ∀ (st : St) (e : Ev), (∀ f ∈ evs, e.id ≠ f.id) → Absorbed desc st e → Absorbed desc (pass desc st evs).1 e := by
  induction evs with
  | nil => intro st e _ h; exact h
  | cons f t ih =>
    intro st e hne h
    simp only [pass]
    exact ih _ e (fun g hg => hne g (List.mem_cons_of_mem _ hg)) (step_keeps desc st e f (hne f List.mem_cons_self) h)

/-- `clean_pass_absorbs_all` (resumable): whatever an earlier, failed run left behind — any state at
all — one clean pass over the issue's events leaves every event absorbed -/
theorem clean_pass_absorbs_all (desc : String) (evs : List Ev) (hd : (evs.map (·.id)).Nodup) :
    ∀ (st : St), ∀ e ∈ evs, Absorbed desc (pass desc st evs).1 e := by
  induction evs with
  | nil => intro st e he; cases he
  | cons f t ih =>
    intro st e he
    rw [List.map_cons, List.nodup_cons] at hd
    simp only [pass]
    cases he with
    | head =>
      apply pass_keeps
      · intro g hg hfg
        exact hd.1 (List.mem_map.mpr ⟨g, hg, hfg.symm⟩)
      · exact step_absorbs desc st f
    | tail _ het => exact ih hd.2 _ e het

/-- a pass over events that are all absorbed adds nothing and changes nothing -/
theorem pass_absorbed (desc : String) (evs : List Ev) :
    ∀ (st : St), (∀ e ∈ evs, Absorbed desc st e) → pass desc st evs = (st, 0) := by
  induction evs with
  | nil => intro st _; rfl
  | cons f t ih =>
    intro st h
    simp only [pass]
    rw [step_absorbed desc st f (h f List.mem_cons_self)]
    simp only
    rw [ih st (fun e he => h e (List.mem_cons_of_mem _ he))]
    simp

/-- `import_idempotent`: importing the same tracker state again creates no operation at all — from
whatever state the first import started -/
theorem import_idempotent (desc : String) (evs : List Ev) (hd : (evs.map (·.id)).Nodup) (st : St) :
    pass desc (pass desc st evs).1 evs = ((pass desc st evs).1, 0) :=
  pass_absorbed desc evs _ (clean_pass_absorbs_all desc evs hd st)

theorem pass_append (desc : String) (a b : List Ev) (st : St) :
    pass desc st (a ++ b) = ((pass desc (pass desc st a).1 b).1, (pass desc st a).2 + (pass desc (pass desc st a).1 b).2) := by
  induction a generalizing st with
  | nil => simp [pass]
  | cons x t ih =>
    simp only [List.cons_append, pass]
    rw [ih]
    simp [Nat.add_assoc]

/-- `import_incremental`: when the tracker has grown by the events `new`, the next import creates
exactly the operations of `new` (what a pass over `new` alone creates from the state reached) -/
theorem import_incremental (desc : String) (old new : List Ev) (hd : (old.map (·.id)).Nodup) (st : St) :
    let st1 := (pass desc st old).1
    pass desc st1 (old ++ new) = pass desc st1 new := by
  intro st1
  rw [pass_append]
  have := import_idempotent desc old hd st
  simp only [st1] at *
  rw [this]
  simp

/-- the cursor: kept when an error was relayed, moved when none was -/
theorem cursor_rule (old : Option Nat) (start errors : Nat) :
    (errors > 0 → cursorAfter old start errors = old) ∧ (errors = 0 → cursorAfter old start errors = some start) := by
  unfold cursorAfter
  constructor
  · intro h; have : (errors == 0) = false := by simp; omega
    simp [this]
  · intro h; simp [h]

/-- a known limit made explicit: when two events of different kinds share an id (GitLab numbers
notes, label events and state events separately) the second one is taken for imported -/
theorem shared_ids_drop_events :
    (pass "d" { known := [], comments := [], desc := "d" } [{ id := "5", kind := .comment "hello" }, { id := "5", kind := .state }]).2 = 1 := by
  decide

/-! ## regenerated obligations: the importer found in the source now -/

/-- the cursor is written in one place, inside `if noError`; a failing request of any fetcher is
reported and ends that fetcher's loop -/
theorem gen_errors_reported :
    GitBugModel.Gen.Bridge.cursorGuarded = true ∧
    GitBugModel.Gen.Bridge.fetchErrors.all (fun f => f.2.1 && f.2.2) = true ∧
    ["Issues", "Notes", "LabelEvents", "StateEvents"].all (fun n => GitBugModel.Gen.Bridge.fetchErrors.any (fun f => f.1 == n)) = true := by
  decide

/-- every kind of event that creates an operation is looked up by its id first (what `step` models),
and imported titles are cleaned like every other text -/
theorem gen_events_deduplicated :
    GitBugModel.Gen.Bridge.eventCases.all (fun c => !c.2.1 || c.2.2) = true ∧
    (GitBugModel.Gen.Bridge.eventCases.filter (fun c => c.2.1)).length ≥ 7 ∧
    GitBugModel.Gen.Bridge.titleCleaned = true := by
  decide

/-! ## non-vacuity -/

example : (pass "d2" { known := [], comments := [], desc := "d1" }
    [{ id := "1", kind := .comment "a" }, { id := "2", kind := .descNote }, { id := "3", kind := .label }, { id := "4", kind := .ignored }]).2 = 3 := by decide

end GitBugModel.Props.C16

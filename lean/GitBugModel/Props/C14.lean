import GitBugModel.Model.Refs
/-!
# C14 — removing an entity removes all of it, only it, and is repeatable
-/
namespace GitBugModel.Props.C14
open GitBugModel.Refs

/-- `remove_targets`: after a removal the local ref and the remote-tracking ref for every
configured remote are absent -/
theorem remove_targets (refs : List String) (ns id : String) (remotes : List String) :
    localRef ns id ∉ remove refs ns id remotes ∧ ∀ r ∈ remotes, remoteRef r ns id ∉ remove refs ns id remotes := by
  constructor
  · intro h
    simp [remove, targets, List.mem_filter] at h
  · intro r hr h
    simp [remove, targets, List.mem_filter] at h
    exact h.2.2 r hr rfl

/-- `remove_frame`: every other ref is kept, in place -/
theorem remove_frame (refs : List String) (ns id : String) (remotes : List String) (r : String)
    (hr : r ∈ refs) (hn : r ∉ targets ns id remotes) : r ∈ remove refs ns id remotes := by
  simp only [remove, List.mem_filter]
  refine ⟨hr, ?_⟩
  simpa using hn

theorem remove_subset (refs : List String) (ns id : String) (remotes : List String) :
    ∀ r ∈ remove refs ns id remotes, r ∈ refs ∧ r ∉ targets ns id remotes := by
  intro r h
  simp only [remove, List.mem_filter] at h
  exact ⟨h.1, by simpa using h.2⟩

/-- `remove_idem`: repeating the removal changes nothing more -/
theorem remove_idem (refs : List String) (ns id : String) (remotes : List String) :
    remove (remove refs ns id remotes) ns id remotes = remove refs ns id remotes := by
  simp [remove, List.filter_filter]

/-- removal keeps the order and multiplicity of what it keeps -/
theorem remove_sublist (refs : List String) (ns id : String) (remotes : List String) :
    (remove refs ns id remotes).Sublist refs := List.filter_sublist

/-- `remove_persists`: nothing brings the entity back without a new fetch — a merge only looks
at the remote-tracking refs, which are gone -/
theorem remove_persists (refs : List String) (ns id : String) (remotes : List String) (r : String) (hr : r ∈ remotes) :
    remoteRef r ns id ∉ remove refs ns id remotes := (remove_targets refs ns id remotes).2 r hr

/-- `wipe_clean`: after a wipe no ref is left under the git-bug namespaces (local or
remote-tracking for the configured remotes) -/
theorem wipe_clean (refs : List String) (remotes : List String) : ∀ r ∈ wipe refs remotes, isGitBugRef remotes r = false := by
  intro r h
  simp only [wipe, removeAll, List.mem_filter, Bool.not_eq_true', Bool.or_eq_false_iff] at h
  obtain ⟨⟨_, hb⟩, hi⟩ := h
  simp only [isGitBugRef, List.any_cons, List.any_nil, Bool.or_false, Bool.or_eq_false_iff]
  exact ⟨hb, hi⟩

/-- and nothing outside those namespaces is touched -/
theorem wipe_frame (refs : List String) (remotes : List String) (r : String) (hr : r ∈ refs) (h : isGitBugRef remotes r = false) :
    r ∈ wipe refs remotes := by
  simp only [isGitBugRef, List.any_cons, List.any_nil, Bool.or_false, Bool.or_eq_false_iff] at h
  simp only [wipe, removeAll, List.mem_filter, Bool.not_eq_true', Bool.or_eq_false_iff]
  exact ⟨⟨hr, h.1⟩, h.2⟩

/-- The pinned tree's `RemoveAll` (local ids only) leaves the remote-tracking ref of an entity
that was fetched but never merged: kernel-checked witness. -/
theorem removeAll_local_only_leaves_tracking_ref :
    let refs := ["refs/bugs/aaa", "refs/remotes/origin/bugs/aaa", "refs/remotes/origin/bugs/bbb", "refs/heads/main"]
    removeAllLocalIdsOnly refs "bugs" ["origin"] ["aaa"] = ["refs/remotes/origin/bugs/bbb", "refs/heads/main"] ∧
    removeAll refs "bugs" ["origin"] = ["refs/heads/main"] := by
  decide

/-! ## non-vacuity -/

example : remove ["refs/bugs/abc", "refs/bugs/abd", "refs/remotes/o1/bugs/abc", "refs/remotes/o2/bugs/abc", "refs/identities/abc", "refs/heads/main"]
    "bugs" "abc" ["o1", "o2", "o3"] = ["refs/bugs/abd", "refs/identities/abc", "refs/heads/main"] := by decide

end GitBugModel.Props.C14

import GitBugModel.Model.Refs
/-!
# C14 — removing an entity removes all of it, only it, and is repeatable
-/
namespace GitBugModel.Props.C14
open GitBugModel.Refs

/-- `remove_targets`: after a removal the local ref and the remote-tracking ref for every
configured remote are absent -/
theorem remove_targets (refs : List String) (ns id : String) (remotes : List String) :
    localRef ns id ∉ remove refs ns id remotes ∧ ∀ r ∈ remotes, remoteRef r ns id ∉ remove refs ns id remotes := by
  constructor
  · intro h
    simp [remove, targets, List.mem_filter] at h
  · intro r hr h
    simp [remove, targets, List.mem_filter] at h
    exact h.2.2 r hr rfl

/-- `remove_frame`: every other ref is kept, in place -/
theorem remove_frame (refs : List String) (ns id : String) (remotes : List String) (r : String)
    (hr : r ∈ refs) (hn : r ∉ targets ns id remotes) : r ∈ remove refs ns id remotes := by
  simp only [remove, List.mem_filter]
  refine ⟨hr, ?_⟩
  simpa using hn

theorem remove_subset (refs : List String) (ns id : String) (remotes : List String) :
    ∀ r ∈ remove refs ns id remotes, r ∈ refs ∧ r ∉ targets ns id remotes := by
  intro r h
  simp only [remove, List.mem_filter] at h
  exact ⟨h.1, by simpa using h.2⟩

/-- `remove_idem`: repeating the removal changes nothing more -/
theorem remove_idem (refs : List String) (ns id : String) (remotes : List String) :
    remove (remove refs ns id remotes) ns id remotes = remove refs ns id remotes := by
  simp [remove, List.filter_filter]

/-- removal keeps the order and multiplicity of what it keeps -/
theorem remove_sublist (refs : List String) (ns id : String) (remotes : List String) :
    (remove refs ns id remotes).Sublist refs := List.filter_sublist

/-- `remove_persists`: nothing brings the entity back without a new fetch — a merge only looks
at the remote-tracking refs, which are gone -/
theorem remove_persists (refs : List String) (ns id : String) (remotes : List String) (r : String) (hr : r ∈ remotes) :
    remoteRef r ns id ∉ remove refs ns id remotes := (remove_targets refs ns id remotes).2 r hr

/-- `wipe_clean`: after a wipe no ref is left under the git-bug namespaces (local or
remote-tracking for the configured remotes) -/
theorem wipe_clean (refs : List String) (remotes : List String) : ∀ r ∈ wipe refs remotes, isGitBugRef remotes r = false := by
  intro r h
  simp only [wipe, removeAll, List.mem_filter, Bool.not_eq_true', Bool.or_eq_false_iff] at h
  obtain ⟨⟨_, hb⟩, hi⟩ := h
  simp only [isGitBugRef, List.any_cons, List.any_nil, Bool.or_false, Bool.or_eq_false_iff]
  exact ⟨hb, hi⟩

/-- and nothing outside those namespaces is touched -/
theorem wipe_frame (refs : List String) (remotes : List String) (r : String) (hr : r ∈ refs) (h : isGitBugRef remotes r = false) :
    r ∈ wipe refs remotes := by
  simp only [isGitBugRef, List.any_cons, List.any_nil, Bool.or_false, Bool.or_eq_false_iff] at h
  simp only [wipe, removeAll, List.mem_filter, Bool.not_eq_true', Bool.or_eq_false_iff]
  exact ⟨⟨hr, h.1⟩, h.2⟩

/-- The pinned tree's `RemoveAll` (local ids only) leaves the remote-tracking ref of an entity
that was fetched but never merged: kernel-checked witness. -/
theorem removeAll_local_only_leaves_tracking_ref :
    let refs := ["refs/bugs/aaa", "refs/remotes/origin/bugs/aaa", "refs/remotes/origin/bugs/bbb", "refs/heads/main"]
    removeAllLocalIdsOnly refs "bugs" ["origin"] ["aaa"] = ["refs/remotes/origin/bugs/bbb", "refs/heads/main"] ∧
    removeAll refs "bugs" ["origin"] = ["refs/heads/main"] := by
  decide

/-! ## wipe removes bugs and identities at once: removals of packed refs must be serialised -/

theorem removeSerial_removes (rs : List String) : ∀ (file : List String) (x : String), x ∈ rs → x ∉ removeSerial file rs := by
  induction rs with
  | nil => intro _ _ h; cases h
  | cons r rest ih =>
    intro file x hx
    simp only [removeSerial, List.foldl_cons]
    have keep : ∀ (l : List String) (f : List String), x ∉ f → x ∉ l.foldl (fun f r => f.filter (· != r)) f := by
      intro l
      induction l with
      | nil => intro f h; exact h
      | cons a t iht =>
        intro f h
        simp only [List.foldl_cons]
        apply iht
        intro hm
        exact h (List.mem_filter.mp hm).1
    rcases List.mem_cons.mp hx with rfl | hx'
    · apply keep
      simp
    · exact ih _ x hx'

/-- and serialised removals touch nothing else -/
theorem removeSerial_frame (rs : List String) : ∀ (file : List String) (x : String), x ∈ file → x ∉ rs → x ∈ removeSerial file rs := by
  induction rs with
  | nil => intro file x h _; exact h
  | cons r rest ih =>
    intro file x hx hn
    simp only [removeSerial, List.foldl_cons]
    apply ih
    · refine List.mem_filter.mpr ⟨hx, ?_⟩
      have : x ≠ r := fun e => hn (by rw [e]; simp)
      simpa using this
    · intro h; exact hn (List.mem_cons_of_mem _ h)

/-- `packed_rewrite_race`: two goroutines (the bug and the identity half of the pinned tree's wipe)
each remove a packed ref; both read the file before either writes: the second write brings the
first ref back.  Kernel-checked witness of the defect found by the C15 sweeps and repaired in /repo
(RemoveRef is serialised). -/
theorem packed_rewrite_race :
    (rewriteRun ["refs/bugs/a", "refs/identities/i", "refs/heads/main"]
      [{ ref := "refs/bugs/a" }, { ref := "refs/identities/i" }] [0, 1, 0, 1]).1 = ["refs/bugs/a", "refs/heads/main"] ∧
    (rewriteRun ["refs/bugs/a", "refs/identities/i", "refs/heads/main"]
      [{ ref := "refs/bugs/a" }, { ref := "refs/identities/i" }] [0, 0, 1, 1]).1 = ["refs/heads/main"] := by
  decide

/-! ## non-vacuity -/

example : remove ["refs/bugs/abc", "refs/bugs/abd", "refs/remotes/o1/bugs/abc", "refs/remotes/o2/bugs/abc", "refs/identities/abc", "refs/heads/main"]
    "bugs" "abc" ["o1", "o2", "o3"] = ["refs/bugs/abd", "refs/identities/abc", "refs/heads/main"] := by decide

end GitBugModel.Props.C14

import GitBugModel.Model.GitTree
import GitBugModel.Model.Refs
import GitBugModel.Gen.Frame
import GitBugModel.Model.Ident
import GitBugModel.Model.Config
import Std.Data.String.ToInt
/-!
# C15 — git-bug never disturbs the host repository and writes only valid git data
-/
namespace GitBugModel.Props.C15
open GitBugModel.GitTree

/-! ## the tree order -/

theorem insert_perm (x : Entry) (l : List Entry) : (insertE x l).Perm (x :: l) := by
  induction l with
  | nil => exact List.Perm.refl _
  | cons y ys ih =>
    unfold insertE
    split
    · exact List.Perm.refl _
    · exact (List.Perm.cons y ih).trans (List.Perm.swap x y ys)

/-- `sortTree_perm`: sorting keeps exactly the entries it was given -/
theorem sortTree_perm (l : List Entry) : (sortTree l).Perm l := by
  induction l with
  | nil => exact List.Perm.refl _
  | cons x xs ih =>
    simp only [sortTree, List.foldr_cons]
    exact (insert_perm x _).trans (List.Perm.cons x ih)

def le (a b : Entry) : Prop := key a ≤ key b

theorem le_trans {a b c : Entry} (h1 : le a b) (h2 : le b c) : le a c := String.le_trans h1 h2

theorem insert_sorted (x : Entry) (l : List Entry) (h : l.Pairwise le) : (insertE x l).Pairwise le := by
  induction l with
  | nil => simp [insertE]
  | cons y ys ih =>
    unfold insertE
    by_cases hxy : key x < key y
    · simp only [hxy, if_true]
      refine List.Pairwise.cons ?_ h
      intro z hz
      have hxy' : le x y := String.not_lt.mp (String.lt_asymm hxy)
      cases hz with
      | head => exact hxy'
      | tail _ hz' => exact le_trans hxy' ((List.pairwise_cons.mp h).1 z hz')
    · simp only [hxy, if_false]
      have hy := List.pairwise_cons.mp h
      refine List.Pairwise.cons ?_ (ih hy.2)
      intro z hz
      have := (insert_perm x ys).mem_iff.mp hz
      cases this with
      | head => exact String.not_lt.mp hxy
      | tail _ hz' => exact hy.1 z hz'

/-- `sortTree_sorted`: the result is in git's order -/
theorem sortTree_sorted (l : List Entry) : (sortTree l).Pairwise le := by
  induction l with
  | nil => simp [sortTree]
  | cons x xs ih =>
    simp only [sortTree, List.foldr_cons]
    exact insert_sorted x _ ih

theorem strictlySorted_of (l : List Entry) (hs : l.Pairwise le) (hn : (l.map key).Nodup) : strictlySorted l = true := by
  induction l with
  | nil => rfl
  | cons a t ih =>
    cases t with
    | nil => rfl
    | cons b rest =>
      have hp := List.pairwise_cons.mp hs
      rw [List.map_cons, List.nodup_cons] at hn
      simp only [strictlySorted, Bool.and_eq_true, decide_eq_true_eq]
      refine ⟨?_, ih hp.2 hn.2⟩
      have hle : key a ≤ key b := hp.1 b List.mem_cons_self
      have hne : key a ≠ key b := by
        intro e
        exact hn.1 (by simp [e])
      -- a ≤ b and a ≠ b
      cases Decidable.em (key a < key b) with
      | inl h => exact h
      | inr h => exact absurd (String.le_antisymm hle (String.not_lt.mp h)) hne

theorem distinct_iff (l : List String) : distinct l = true ↔ l.Nodup := by
  induction l with
  | nil => simp [distinct]
  | cons a t ih => simp [distinct, ih, List.nodup_cons]

/-- `sorted_tree_fsck_ok`: whatever entries are handed to `StoreTree`, if their names are legal and
no two of them collide, the stored tree is what `git fsck --strict` accepts: legal, distinct names in
strictly increasing git order. -/
theorem sorted_tree_fsck_ok (l : List Entry) (hn : l.all (fun e => nameOk e.name) = true)
    (hd : (l.map key).Nodup) (hnames : (l.map (·.name)).Nodup) : fsckTreeOk (sortTree l) = true := by
  unfold fsckTreeOk
  rw [Bool.and_eq_true, Bool.and_eq_true]
  refine ⟨⟨?_, ?_⟩, ?_⟩
  · rw [List.all_eq_true] at hn ⊢
    intro e he
    exact hn e ((sortTree_perm l).mem_iff.mp he)
  · apply strictlySorted_of _ (sortTree_sorted l)
    exact ((sortTree_perm l).map key).nodup_iff.mpr hd
  · unfold namesDistinct
    rw [distinct_iff]
    exact ((sortTree_perm l).map (·.name)).nodup_iff.mpr hnames

/-! ## the names git-bug uses -/

theorem digits_no_special (n : Nat) (c : Char) (hc : c ∈ (toString n).toList) : c.isDigit = true := by
  rw [Nat.toString_eq_repr, Nat.toList_repr] at hc
  exact Nat.isDigit_of_mem_toDigits (by decide) (by decide) hc

theorem nameOk_prefix_digits (p : String) (n : Nat) (hp : nameOk p = true)
    (h3 : p.toList.length ≥ 4) : nameOk (p ++ toString n) = true := by
  unfold nameOk at hp ⊢
  simp only [Bool.and_eq_true, bne_iff_ne, ne_eq, Bool.not_eq_true', List.contains_eq_mem, decide_eq_false_iff_not] at hp ⊢
  obtain ⟨⟨⟨⟨⟨h1, h2⟩, h3'⟩, h4⟩, h5⟩, h6⟩ := hp
  have hlen : (p ++ toString n).toList.length ≥ 5 := by
    have := (Nat.toDigits_ne_nil (n := n) (b := 10))
    have h0 : (toString n).toList.length ≥ 1 := by
      rw [Nat.toString_eq_repr, Nat.toList_repr]
      cases h : Nat.toDigits 10 n with
      | nil => exact absurd h this
      | cons _ _ => simp
    simp only [String.toList_append, List.length_append]; omega
  refine ⟨⟨⟨⟨⟨?_, ?_⟩, ?_⟩, ?_⟩, ?_⟩, ?_⟩
  · intro e; rw [e] at hlen; simp at hlen
  · simp only [String.toList_append, List.mem_append, not_or]
    exact ⟨h2, fun hc => by have := digits_no_special n _ hc; simp at this⟩
  · simp only [String.toList_append, List.mem_append, not_or]
    exact ⟨h3', fun hc => by have := digits_no_special n _ hc; simp [Char.isDigit] at this⟩
  · intro e; rw [e] at hlen; simp at hlen
  · intro e; rw [e] at hlen; simp at hlen
  · intro e; rw [e] at hlen; simp at hlen

/-- the first two characters of the key tell the entries of a pack tree apart -/
def two (s : String) : List Char := s.toList.take 2

theorem two_append (p s : String) (h : p.toList.length ≥ 2) : two (p ++ s) = two p := by
  unfold two
  rw [String.toList_append, List.take_append_of_le_length h]

/-- `pack_tree_fsck_ok`: the tree of every operation pack git-bug writes — whatever the format
version, the clock values, with or without a creation clock and an `extra` tree — is accepted by
`git fsck --strict` after `StoreTree` sorted it. -/
theorem pack_tree_fsck_ok (version edit create : Nat) (hasFiles : Bool) :
    fsckTreeOk (sortTree (packEntries version edit create hasFiles)) = true := by
  apply sorted_tree_fsck_ok
  · have h1 := nameOk_prefix_digits "version-" version (by decide) (by decide)
    have h2 := nameOk_prefix_digits "edit-clock-" edit (by decide) (by decide)
    have h3 := nameOk_prefix_digits "create-clock-" create (by decide) (by decide)
    have h4 : nameOk "ops" = true := by decide
    have h5 : nameOk "extra" = true := by decide
    unfold packEntries
    by_cases hc : create > 0 <;> cases hasFiles <;> simp [hc, -Nat.toString_eq_repr, h1, h2, h3, h4, h5]
  · -- distinct keys: look at their first two characters
    have inj : ∀ (l : List String), (l.map two).Nodup → l.Nodup := by
      intro l
      induction l with
      | nil => intro _; exact List.nodup_nil
      | cons a t ih =>
        intro h
        rw [List.map_cons, List.nodup_cons] at h
        rw [List.nodup_cons]
        exact ⟨fun ha => h.1 (List.mem_map.mpr ⟨a, ha, rfl⟩), ih h.2⟩
    apply inj
    have t1 : two ("version-" ++ toString version) = ['v', 'e'] := by rw [two_append _ _ (by decide)]; decide
    have t2 : two ("edit-clock-" ++ toString edit) = ['e', 'd'] := by rw [two_append _ _ (by decide)]; decide
    have t3 : two ("create-clock-" ++ toString create) = ['c', 'r'] := by rw [two_append _ _ (by decide)]; decide
    have t4 : two "ops" = ['o', 'p'] := by decide
    have t5 : two "extra/" = ['e', 'x'] := by decide
    unfold packEntries
    by_cases hc : create > 0 <;> cases hasFiles <;> simp [hc, key, -Nat.toString_eq_repr, t1, t2, t3, t4, t5]
  · have inj : ∀ (l : List String), (l.map two).Nodup → l.Nodup := by
      intro l
      induction l with
      | nil => intro _; exact List.nodup_nil
      | cons a t ih =>
        intro h
        rw [List.map_cons, List.nodup_cons] at h
        rw [List.nodup_cons]
        exact ⟨fun ha => h.1 (List.mem_map.mpr ⟨a, ha, rfl⟩), ih h.2⟩
    apply inj
    have t1 : two ("version-" ++ toString version) = ['v', 'e'] := by rw [two_append _ _ (by decide)]; decide
    have t2 : two ("edit-clock-" ++ toString edit) = ['e', 'd'] := by rw [two_append _ _ (by decide)]; decide
    have t3 : two ("create-clock-" ++ toString create) = ['c', 'r'] := by rw [two_append _ _ (by decide)]; decide
    have t4 : two "ops" = ['o', 'p'] := by decide
    have t5 : two "extra" = ['e', 'x'] := by decide
    unfold packEntries
    by_cases hc : create > 0 <;> cases hasFiles <;> simp [hc, -Nat.toString_eq_repr, t1, t2, t3, t4, t5]

theorem repr_inj {i j : Nat} (h : toString i = toString j) : i = j := by
  rw [Nat.toString_eq_repr, Nat.toString_eq_repr] at h
  have hi := Nat.toInt?_repr i
  rw [h, Nat.toInt?_repr j] at hi
  have : (j : Int) = (i : Int) := by injection hi
  omega

/-- `extra_tree_fsck_ok`: the tree that holds the attached files (`file0`, `file1`, …), for any
number of files, is accepted by `git fsck --strict` after `StoreTree` sorted it (git's order
puts `file10` before `file2`). -/
theorem extra_tree_fsck_ok (n : Nat) : fsckTreeOk (sortTree (extraEntries n)) = true := by
  apply sorted_tree_fsck_ok
  · rw [List.all_eq_true]
    intro e he
    unfold extraEntries at he
    obtain ⟨i, _, rfl⟩ := List.mem_map.mp he
    exact nameOk_prefix_digits "file" i (by decide) (by decide)
  · unfold extraEntries
    rw [List.map_map]
    have inj : ∀ i j : Nat, (key ∘ fun i => ({ name := "file" ++ toString i, isTree := false } : Entry)) i =
        (key ∘ fun i => ({ name := "file" ++ toString i, isTree := false } : Entry)) j → i = j := by
      intro i j hij
      simp only [Function.comp, key, Bool.false_eq_true, if_false] at hij
      have : ("file" ++ toString i).toList = ("file" ++ toString j).toList := by rw [hij]
      rw [String.toList_append, String.toList_append] at this
      have := List.append_cancel_left this
      exact repr_inj (String.ext this)
    have gen : ∀ (l : List Nat), l.Nodup → (l.map (key ∘ fun i => ({ name := "file" ++ toString i, isTree := false } : Entry))).Nodup := by
      intro l
      induction l with
      | nil => intro _; exact List.nodup_nil
      | cons a t ih =>
        intro h
        rw [List.nodup_cons] at h
        rw [List.map_cons, List.nodup_cons]
        refine ⟨?_, ih h.2⟩
        intro hm
        obtain ⟨b, hb, hab⟩ := List.mem_map.mp hm
        have := inj b a hab
        subst this
        exact h.1 hb
    exact gen _ List.nodup_range
  · unfold extraEntries
    rw [List.map_map]
    have gen : ∀ (l : List Nat), l.Nodup → (l.map ((·.name) ∘ fun i => ({ name := "file" ++ toString i, isTree := false } : Entry))).Nodup := by
      intro l
      induction l with
      | nil => intro _; exact List.nodup_nil
      | cons a t ih =>
        intro h
        rw [List.nodup_cons] at h
        rw [List.map_cons, List.nodup_cons]
        refine ⟨?_, ih h.2⟩
        intro hm
        obtain ⟨b, hb, hab⟩ := List.mem_map.mp hm
        simp only [Function.comp] at hab
        have : ("file" ++ toString b).toList = ("file" ++ toString a).toList := by rw [hab]
        rw [String.toList_append, String.toList_append] at this
        have := repr_inj (String.ext (List.append_cancel_left this))
        subst this
        exact h.1 hb
    exact gen _ List.nodup_range

/-! ## refs: everything git-bug names lies in its namespaces -/

open GitBugModel.Refs in
/-- the refs git-bug builds (`refs/<ns>/<id>`, `refs/remotes/<remote>/<ns>/<id>`) are git-bug refs -/
theorem built_refs_in_namespace (remotes : List String) (ns id rm : String)
    (hns : ns = "bugs" ∨ ns = "identities") (hrm : rm ∈ remotes) :
    isGitBugRef remotes (localRef ns id) = true ∧ isGitBugRef remotes (remoteRef rm ns id) = true := by
  have pre : ∀ (p s : String), p.toList.isPrefixOf (p ++ s).toList = true := by
    intro p s; simp [String.toList_append]
  constructor
  · unfold isGitBugRef isLocalOf localRef
    rcases hns with rfl | rfl
    · simp only [List.any_cons, Bool.or_eq_true]
      left; left
      have := pre ("refs/" ++ "bugs" ++ "/") id
      simp at this ⊢
    · simp only [List.any_cons, Bool.or_eq_true]
      right; left; left
      have := pre ("refs/" ++ "identities" ++ "/") id
      simp at this ⊢
  · unfold isGitBugRef isTrackingOf remoteRef
    have hany : ∀ ns', remotes.any (fun r => ("refs/remotes/" ++ r ++ "/" ++ ns' ++ "/").toList.isPrefixOf
        ("refs/remotes/" ++ rm ++ "/" ++ ns' ++ "/" ++ id).toList) = true := by
      intro ns'
      rw [List.any_eq_true]
      exact ⟨rm, hrm, pre _ id⟩
    rcases hns with rfl | rfl
    · simp only [List.any_cons, Bool.or_eq_true]
      left; right; exact hany "bugs"
    · simp only [List.any_cons, Bool.or_eq_true]
      right; left; right; exact hany "identities"

open GitBugModel.Refs in
/-- `host_refs_untouched`: removing an entity, removing all of them or wiping leaves every ref
outside the namespaces exactly where it was, in place and in order -/
theorem host_refs_untouched (refs remotes : List String) :
    (wipe refs remotes).filter (fun r => !isGitBugRef remotes r) = refs.filter (fun r => !isGitBugRef remotes r) := by
  unfold wipe removeAll
  simp only [List.filter_filter]
  apply List.filter_congr
  intro r _
  unfold isGitBugRef
  simp only [List.any_cons, List.any_nil, Bool.or_false]
  cases isLocalOf "bugs" r <;> cases isLocalOf "identities" r <;>
    cases remotes.any (fun rm => isTrackingOf rm "bugs" r) <;>
    cases remotes.any (fun rm => isTrackingOf rm "identities" r) <;> rfl

/-! ## regenerated obligations: the literals the source builds names from -/

def startsWith (s p : String) : Bool := p.toList.isPrefixOf s.toList

/-- every literal from which a ref name, a ref prefix or a refspec is built starts inside the
namespaces: `refs/<ns>/…`, `refs/remotes/<remote>/<ns>/…`, or the identity patterns; the two
refspecs map a namespace onto itself or onto its remote mirror -/
theorem gen_ref_literals :
    GitBugModel.Gen.Frame.refLiterals.all (fun l =>
      ["refs/%s/", "refs/remotes/%s/%s/", "refs/identities/", "refs/remotes/%s/identities/", "refs/bugs"].any (startsWith l)) = true ∧
    (GitBugModel.Gen.Frame.refLiterals.filter (fun l => l.toList.contains ':')) =
      ["refs/%s/*:refs/%s/*", "refs/%s/*:refs/remotes/%s/%s/*"] := by
  decide

/-- every configuration literal is `git-bug` or lies under `git-bug.`; the storage directory is
`.git/git-bug` -/
theorem gen_config_literals :
    GitBugModel.Gen.Frame.configLiterals.all (fun l => l == "git-bug" || startsWith l "git-bug.") = true ∧
    GitBugModel.Gen.Frame.configLiterals ≠ [] ∧
    GitBugModel.Gen.Frame.namespaces = ["git-bug"] := by
  decide

/-! ## non-vacuity: git's order is not the plain name order -/

example : (sortTree [{ name := "a0", isTree := false }, { name := "a", isTree := true }, { name := "a.b", isTree := false }]).map (·.name)
    = ["a.b", "a", "a0"] := by decide
example : fsckTreeOk [{ name := "a", isTree := true }, { name := "a.b", isTree := false }] = false ∧
    fsckTreeOk [{ name := "a", isTree := false }, { name := "a", isTree := true }] = false := by decide


/-! ## the author and committer lines of the commits -/
section IdentLines
open GitBugModel.Ident

/-- whatever the configuration holds, a cleaned name or email has no '<', '>' or newline -/
theorem cleanIdent_no_special (s : List Char) : ∀ c ∈ cleanIdent s, isSpecial c = false := by
  intro c hc
  unfold cleanIdent at hc
  have := (List.mem_filter.mp hc).2
  simpa using this

theorem takeWhile_plain (a b : List Char) (h : ∀ c ∈ a, isSpecial c = false) :
    (a ++ b).takeWhile (fun c => !isSpecial c) = a ++ b.takeWhile (fun c => !isSpecial c) := by
  induction a with
  | nil => rfl
  | cons x xs ih =>
    have hx : isSpecial x = false := h x List.mem_cons_self
    simp only [List.cons_append, List.takeWhile_cons, hx, Bool.not_false, if_true]
    rw [ih (fun c hc => h c (List.mem_cons_of_mem _ hc))]

theorem dropWhile_plain (a b : List Char) (h : ∀ c ∈ a, isSpecial c = false) :
    (a ++ b).dropWhile (fun c => !isSpecial c) = b.dropWhile (fun c => !isSpecial c) := by
  induction a with
  | nil => rfl
  | cons x xs ih =>
    have hx : isSpecial x = false := h x List.mem_cons_self
    simp only [List.cons_append, List.dropWhile_cons, hx, Bool.not_false, if_true]
    exact ih (fun c hc => h c (List.mem_cons_of_mem _ hc))

/-- a line made of a name and an email without '<', '>' or newline, and a well-formed date, is
accepted by `git fsck` — in particular with an empty name or an empty email (what an unset
`author.name` gives) -/
theorem plain_ident_fsck_ok (name email date : List Char)
    (hn : ∀ c ∈ name, isSpecial c = false) (he : ∀ c ∈ email, isSpecial c = false) (hd : dateOk date = true) :
    fsckIdent (identLine name email date) = none := by
  have hline : identLine name email date = name ++ (' ' :: '<' :: (email ++ ('>' :: ' ' :: date))) := by
    simp [identLine]
  have hhead : (identLine name email date).head? ≠ some '<' := by
    rw [hline]
    cases name with
    | nil => simp
    | cons x xs =>
      simp only [List.cons_append, List.head?_cons, ne_eq, Option.some.injEq]
      intro hx
      have := hn x List.mem_cons_self
      rw [hx] at this
      revert this; decide
  have htake : (identLine name email date).takeWhile (fun c => !isSpecial c) = name ++ [' '] := by
    rw [hline, takeWhile_plain _ _ hn]
    have h1 : isSpecial ' ' = false := by decide
    have h2 : isSpecial '<' = true := by decide
    simp [List.takeWhile_cons, h1, h2]
  have hdrop : (identLine name email date).dropWhile (fun c => !isSpecial c) = '<' :: (email ++ ('>' :: ' ' :: date)) := by
    rw [hline, dropWhile_plain _ _ hn]
    have h1 : isSpecial ' ' = false := by decide
    have h2 : isSpecial '<' = true := by decide
    simp [List.dropWhile_cons, h1, h2]
  have hdrop2 : (email ++ ('>' :: ' ' :: date)).dropWhile (fun c => !isSpecial c) = '>' :: ' ' :: date := by
    rw [dropWhile_plain _ _ he]
    have h2 : isSpecial '>' = true := by decide
    simp [List.dropWhile_cons, h2]
  unfold fsckIdent
  rw [if_neg (by simpa using hhead)]
  simp only [htake, hdrop, hdrop2, List.getLast?_append, List.getLast?_singleton, Option.or_some]
  simp [hd]

/-- **every commit git-bug writes has author and committer lines `git fsck` accepts**, whatever
`author.*` and `committer.*` hold in the host's configuration (since the repair: they are cleaned
as git cleans them) -/
theorem cleaned_ident_fsck_ok (cfgName cfgEmail date : List Char) (hd : dateOk date = true) :
    fsckIdent (identLine (cleanIdent cfgName) (cleanIdent cfgEmail) date) = none :=
  plain_ident_fsck_ok _ _ _ (cleanIdent_no_special cfgName) (cleanIdent_no_special cfgEmail) hd

/-- the pinned tree wrote the configured strings as they are: a bracket or a newline in them gives
a line `git fsck` refuses (kernel-checked witnesses; found through seed C15-6, repaired in /repo) -/
theorem raw_ident_fsck_fails :
    fsckIdent (identLine "Au <thor>".toList "<au@example.com>".toList "1790748343 +0000".toList) ≠ none ∧
    fsckIdent (identLine "Com\nmit".toList "".toList "1790748343 +0000".toList) ≠ none := by
  decide

example : cleanIdent "  \"Au <thor>.\" ".toList = "Au thor".toList ∧ cleanIdent "<au@example.com>".toList = "au@example.com".toList := by decide
example : dateOk "1790748343 +0000".toList = true := by decide

end IdentLines


/-! ## the configuration: what removing git-bug's keys removes -/
section ConfigFrame
open GitBugModel.Config

/-- `RemoveAll("git-bug")` (what `wipe` does): every section whose name is not `git-bug` — whatever
it is called: `git-bugs`, `git-bug-prompt`, `gitbug` — stays as it was, in place; no section named
`git-bug` remains -/
theorem removeAll_section_frame (lower : String → String) (c c' : Cfg) (sec : String)
    (h : removeAll lower c sec none = .ok c') :
    c' = c.filter (fun s => !isName lower s sec) ∧
    (∀ s ∈ c, isName lower s sec = false → s ∈ c') ∧ (∀ s ∈ c', isName lower s sec = false) := by
  unfold removeAll at h
  simp only at h
  split at h
  · injection h with h
    subst h
    refine ⟨rfl, ?_, ?_⟩
    · intro s hs hn
      exact List.mem_filter.mpr ⟨hs, by simp [hn]⟩
    · intro s hs
      have := (List.mem_filter.mp hs).2
      simpa using this
  · cases h

/-- a longer prefix (`git-bug.bridge.x`): only the section `git-bug` can change, and in it only the
subsection and the option of that name -/
theorem removeAll_sub_frame (lower : String → String) (c c' : Cfg) (sec r : String)
    (h : removeAll lower c sec (some r) = .ok c') :
    c'.length = c.length ∧ ∀ s ∈ c, isName lower s sec = false → s ∈ c' := by
  unfold removeAll at h
  simp only at h
  split at h
  · cases h
  · rename_i s hfind
    split at h
    · injection h with h
      subst h
      refine ⟨by simp, ?_⟩
      intro x hx hn
      have hsn : isName lower s sec = true := by
        have := List.find?_some hfind
        simpa using this
      have hne : (x == s) = false := by
        apply beq_false_of_ne
        intro e; subst e; rw [hsn] at hn; cases hn
      exact List.mem_map.mpr ⟨x, hx, by simp [hne]⟩
    · cases h

/-- the look-alikes of the harness's host repositories, evaluated by the kernel -/
example :
    let c : Cfg := [⟨"core", [("bare", "false")], []⟩, ⟨"git-bug", [("user-identity", "abc")], [⟨"bridge.x", [("token", "t")]⟩]⟩,
                    ⟨"git-bug-prompt", [("enabled", "true")], []⟩, ⟨"git-bugs", [("notours", "1")], []⟩]
    (match removeAll id c "git-bug" none with | .ok c' => keys c' | .invalidPrefix => []) =
      ["core.bare", "git-bug-prompt.enabled", "git-bugs.notours"] := by
  decide

end ConfigFrame

end GitBugModel.Props.C15

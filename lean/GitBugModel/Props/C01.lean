import GitBugModel.Model.Dag
import GitBugModel.Lemmas.PackSort
import GitBugModel.Props.C03
import GitBugModel.Lemmas.Reach
import GitBugModel.Model.Knowledge
/-!
# C01 — replicas that exchanged everything show identical bugs (convergence)

Data-level convergence, for unbounded histories: what a replica shows for a bug is a function
of the *multiset of non-empty operation packs* its head reaches.  Merge commits (empty packs),
the shape of the DAG, the order of exchanges and the enumeration order of maps and refs do not
matter.  Two replicas that have received every operation the other knows reach the same
non-empty packs, hence show the same operations in the same order, hence the same compiled
state (the compiler is a function of the operation list, see C10).

The system-level part is proved in two layers below: (1) every outcome of a merge leaves a head
that reaches exactly what the local and the remote head reached (`merge_reach_fastforward`,
`merge_reach_nothing`, `merge_reach_diverged`, on top of the correctness of the breadth-first
collection, `Lemmas/Reach`), and (2) at the level of what each replica reaches, one round of
pull;push by everybody followed by one round of pull leaves every replica with everything
anybody had (`exchange_converges`).  That every ref stays readable along the way is C02/C05 and
the replica harness.
-/
namespace GitBugModel.Props.C01
open GitBugModel.Dag

def nonEmpty (p : Pack) : Bool := !p.ops.isEmpty

/-- `read_ops_determined`: two successful reads (any stores, any heads) whose reachable
non-empty packs are the same multiset return the same operations in the same order. -/
theorem read_ops_determined {s₁ s₂ : Store} {h₁ h₂ : String} {e₁ e₂ : Entity}
    (r₁ : Dag.read s₁ h₁ = .ok e₁) (r₂ : Dag.read s₂ h₂ = .ok e₂)
    (hk : KeyOK e₁.packs) (hk₂ : KeyOK e₂.packs)
    (hperm : (e₁.packs.filter nonEmpty).Perm (e₂.packs.filter nonEmpty)) :
    e₁.ops = e₂.ops := by
  obtain ⟨_, _, _, _, _, ho₁, _⟩ := C03.read_wellformed r₁
  obtain ⟨_, _, _, _, _, ho₂, _⟩ := C03.read_wellformed r₂
  rw [ho₁, ho₂, opsOf_ignores_empty e₁.packs hk, opsOf_ignores_empty e₂.packs hk₂]
  apply opsOf_perm hperm
  intro a ha b hb
  exact hk a (List.mem_filter.mp ha).1 b (List.mem_filter.mp hb).1

/-- Merge commits are irrelevant: adding or removing packs without operations anywhere in a
pack multiset does not change the operation list. -/
theorem merge_commits_irrelevant (packs extra : List Pack) (hk : KeyOK (packs ++ extra))
    (hempty : ∀ p ∈ extra, p.ops = []) : opsOf (packs ++ extra) = opsOf packs := by
  have hk' : KeyOK packs := fun a ha b hb => hk a (List.mem_append_left _ ha) b (List.mem_append_left _ hb)
  rw [opsOf_ignores_empty _ hk, opsOf_ignores_empty packs hk']
  congr 1
  rw [List.filter_append]
  have : extra.filter (fun p => !p.ops.isEmpty) = [] := by
    rw [List.filter_eq_nil_iff]
    intro p hp
    simp [hempty p hp]
  rw [this, List.append_nil]

/-- `convergence`: two replicas whose heads reach the same operations-carrying commits — in
whatever DAG shape, with whatever merge commits each created — show the same operations in
the same order. -/
theorem convergence {sA sB : Store} {hA hB : String} {eA eB : Entity}
    (rA : Dag.read sA hA = .ok eA) (rB : Dag.read sB hB = .ok eB)
    (hkA : KeyOK eA.packs) (hkB : KeyOK eB.packs)
    (sameKnowledge : (eA.packs.filter nonEmpty).Perm (eB.packs.filter nonEmpty)) :
    eA.ops = eB.ops ∧ eA.ops.map (·.id) = eB.ops.map (·.id) := by
  have := read_ops_determined rA rB hkA hkB sameKnowledge
  exact ⟨this, by rw [this]⟩

/-- the result does not depend on the enumeration order of the pack map on either side -/
theorem convergence_enum_indep {s : Store} {h : String} {e : Entity} (r : Dag.read s h = .ok e)
    (hk : KeyOK e.packs) (enum₁ enum₂ : List Pack) (p₁ : enum₁.Perm e.packs) (p₂ : enum₂.Perm e.packs) :
    opsOf enum₁ = opsOf enum₂ := by
  rw [C03.read_enum_indep r hk enum₁ p₁, C03.read_enum_indep r hk enum₂ p₂]

/-! ## what a merged head reaches -/

/-- fast-forward: the remote head already reaches the local one, so it reaches all the local one reached -/
theorem merge_reach_fastforward {s : Store} {l rh : String} {o1 o2 : List Commit}
    (hb1 : bfs s (s.length + 1) [rh] [rh] [] = .ok o1) (hb2 : bfs s (s.length + 1) [l] [l] [] = .ok o2)
    (hff : l ∈ reach s rh) : ∀ y, y ∈ reach s l ∨ y ∈ reach s rh ↔ y ∈ reach s rh := by
  intro y
  constructor
  · rintro (h | h)
    · exact reach_trans hb1 hb2 hff y h
    · exact h
  · exact Or.inr

/-- nothing to do: the local head already reaches the remote one -/
theorem merge_reach_nothing {s : Store} {l rh : String} {o1 o2 : List Commit}
    (hb1 : bfs s (s.length + 1) [l] [l] [] = .ok o1) (hb2 : bfs s (s.length + 1) [rh] [rh] [] = .ok o2)
    (hn : rh ∈ reach s l) : ∀ y, y ∈ reach s l ∨ y ∈ reach s rh ↔ y ∈ reach s l := by
  intro y
  constructor
  · rintro (h | h)
    · exact h
    · exact reach_trans hb1 hb2 hn y h
  · exact Or.inl

/-- diverged: the merge commit (a new hash, parents = the two heads) reaches itself and exactly
what the two heads reached (proved in `Lemmas/Reach`) -/
theorem merge_reach_diverged (s : Store) (l rh nh mp au : String) (e : Nat) (hfresh : lookup s nh = none) (y : String) :
    Reach (s ++ [mkMergeCommit nh l rh mp au e]) nh y ↔ y = nh ∨ Reach s l y ∨ Reach s rh y :=
  Dag.merge_reach_diverged s l rh nh mp au e hfresh y

/-! ## exchange through a remote, at the level of what each replica reaches -/

open GitBugModel.Knowledge

theorem reps_pull (σ : Sys) (i : Nat) : (pull σ i).reps.length = σ.reps.length := by
  simp [pull]

/-- pulls and pushes never lose anything, anywhere -/
theorem pull_mono (σ : Sys) (i j : Nat) (k : KSet) (hk : σ.reps[j]? = some k) :
    ∃ k', (pull σ i).reps[j]? = some k' ∧ ∀ x, k x → k' x := by
  unfold pull
  by_cases hij : i = j
  · subst hij
    refine ⟨fun x => k x ∨ σ.remote x, ?_, fun x h => Or.inl h⟩
    simp [List.getElem?_modify, hk]
  · refine ⟨k, ?_, fun x h => h⟩
    simp [List.getElem?_modify, hij, hk]

/-- after `pull i; push i` the remote has everything it had and everything replica `i` had -/
theorem pull_push_remote (σ : Sys) (i : Nat) (k : KSet) (hk : σ.reps[i]? = some k) :
    ∀ x, (push (pull σ i) i).remote x ↔ σ.remote x ∨ k x := by
  intro x
  have h1 : (pull σ i).reps[i]? = some (fun x => k x ∨ σ.remote x) := by
    simp [pull, List.getElem?_modify, hk]
  unfold push
  rw [h1]
  simp only [pull]
  constructor
  · rintro (h | h | h)
    · exact Or.inl h
    · exact Or.inr h
    · exact Or.inl h
  · rintro (h | h)
    · exact Or.inl h
    · exact Or.inr (Or.inl h)

theorem push_reps (σ : Sys) (i : Nat) : (push σ i).reps = σ.reps := by
  unfold push; split <;> rfl

/-- the remote only grows along a pass of pull;push, and ends with what every replica on the list had -/
theorem passPullPush_remote (is : List Nat) : ∀ (σ : Sys),
    (∀ x, σ.remote x → (passPullPush σ is).remote x) ∧
    (∀ i ∈ is, ∀ k, σ.reps[i]? = some k → ∀ x, k x → (passPullPush σ is).remote x) := by
  induction is with
  | nil => intro σ; exact ⟨fun _ h => h, fun i hi => by cases hi⟩
  | cons a t ih =>
    intro σ
    simp only [passPullPush]
    have ih' := ih (push (pull σ a) a)
    refine ⟨?_, ?_⟩
    · intro x hx
      apply ih'.1
      cases ha : σ.reps[a]? with
      | some k => exact (pull_push_remote σ a k ha x).mpr (Or.inl hx)
      | none =>
        have : (pull σ a).reps[a]? = none := by simp [pull, List.getElem?_modify, ha]
        simp only [push, this]; exact hx
    · intro i hi k hk x hx
      cases hi with
      | head => exact ih'.1 x ((pull_push_remote σ a k hk x).mpr (Or.inr hx))
      | tail _ hi' =>
        obtain ⟨k', hk', hmono⟩ := pull_mono σ a i k hk
        have hk'' : (push (pull σ a) a).reps[i]? = some k' := by rw [push_reps]; exact hk'
        exact ih'.2 i hi' k' hk'' x (hmono x hx)

/-- `exchange_converges`: every replica pulls and pushes once (in any order `order1` that names
them all), then every replica pulls once more (`order2`, naming them all): afterwards each replica
reaches everything that the remote or any replica reached at the beginning — all the same. -/
theorem exchange_converges (σ : Sys) (order1 order2 : List Nat)
    (h1 : ∀ i, i < σ.reps.length → i ∈ order1) (h2 : ∀ i, i < σ.reps.length → i ∈ order2)
    (i : Nat) (hi : i < σ.reps.length) (x : String) (hx : everything σ x) :
    ∃ k, (passPull (passPullPush σ order1) order2).reps[i]? = some k ∧ k x := by
  -- after the first pass the remote has everything
  have hrem : (passPullPush σ order1).remote x := by
    rcases hx with hx | ⟨k, hk, hkx⟩
    · exact (passPullPush_remote order1 σ).1 x hx
    · obtain ⟨j, hj, hjk⟩ := List.mem_iff_getElem.mp hk
      exact (passPullPush_remote order1 σ).2 j (h1 j hj) k (by rw [List.getElem?_eq_getElem hj, hjk]) x hkx
  -- lengths are preserved
  have len1 : ∀ (is : List Nat) (τ : Sys), (passPullPush τ is).reps.length = τ.reps.length := by
    intro is
    induction is with
    | nil => intro τ; rfl
    | cons a t ih => intro τ; simp only [passPullPush]; rw [ih, push_reps, reps_pull]
  -- in the second pass: the remote is untouched, and whoever pulls gets it
  have key : ∀ (is : List Nat) (τ : Sys), τ.remote x → i < τ.reps.length → i ∈ is →
      ∃ k, (passPull τ is).reps[i]? = some k ∧ k x := by
    intro is
    induction is with
    | nil => intro τ _ _ h; cases h
    | cons a t ih =>
      intro τ hr hlen hmem
      simp only [passPull]
      by_cases ha : a = i
      · subst ha
        -- replica a pulls now; later pulls only add
        have hnow : ∃ k, (pull τ a).reps[a]? = some k ∧ k x := by
          refine ⟨fun y => τ.reps[a] y ∨ τ.remote y, ?_, Or.inr hr⟩
          simp [pull, List.getElem?_modify, List.getElem?_eq_getElem hlen]
        have later : ∀ (js : List Nat) (υ : Sys), (∃ k, υ.reps[a]? = some k ∧ k x) →
            ∃ k, (passPull υ js).reps[a]? = some k ∧ k x := by
          intro js
          induction js with
          | nil => intro υ h; exact h
          | cons b u ihu =>
            intro υ ⟨k, hk, hkx⟩
            simp only [passPull]
            obtain ⟨k', hk', hm⟩ := pull_mono υ b a k hk
            exact ihu _ ⟨k', hk', hm x hkx⟩
        exact later t _ hnow
      · have hmem' : i ∈ t := by
          cases hmem with
          | head => exact absurd rfl ha
          | tail _ h => exact h
        exact ih (pull τ a) (by simpa [pull] using hr) (by rw [reps_pull]; exact hlen) hmem'
  exact key order2 _ hrem (by rw [len1]; exact hi) (h2 i hi)

/-! ## non-vacuity: the same three operation packs merged in two different shapes -/

private def pk (id : String) (ops : List String) (c e : Nat) : Except Err Pack :=
  .ok { id := id, author := "a", ops := ops.map (fun o => { id := o }), create := c, edit := e }
private def base : Store := [
  { hash := "R", parents := [], pack := pk "p0" ["create"] 1 1 },
  { hash := "A1", parents := ["R"], pack := pk "pa1" ["a1"] 0 2 },
  { hash := "B1", parents := ["R"], pack := pk "pb1" ["b1"] 0 2 },
  { hash := "B2", parents := ["B1"], pack := pk "pb2" ["b2"] 0 3 }]
/-- replica A merged (A1, B2); replica B merged (B2, A1) with another merge commit on top -/
private def storeA : Store := base ++ [{ hash := "MA", parents := ["A1", "B2"], pack := pk "pm" [] 0 4 }]
private def storeB : Store := base ++ [{ hash := "MB", parents := ["B2", "A1"], pack := pk "pm" [] 0 5 },
  { hash := "MB2", parents := ["MB", "A1"], pack := pk "pm" [] 0 6 }]

example : (match Dag.read storeA "MA", Dag.read storeB "MB2" with
    | .ok a, .ok b => a.ops.map (·.id) == b.ops.map (·.id) && a.ops.length == 4
    | _, _ => false) = true := by decide

end GitBugModel.Props.C01

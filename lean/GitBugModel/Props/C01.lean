import GitBugModel.Model.Dag
import GitBugModel.Lemmas.PackSort
import GitBugModel.Props.C03
/-!
# C01 — replicas that exchanged everything show identical bugs (convergence)

Data-level convergence, for unbounded histories: what a replica shows for a bug is a function
of the *multiset of non-empty operation packs* its head reaches.  Merge commits (empty packs),
the shape of the DAG, the order of exchanges and the enumeration order of maps and refs do not
matter.  Two replicas that have received every operation the other knows reach the same
non-empty packs, hence show the same operations in the same order, hence the same compiled
state (the compiler is a function of the operation list, see C10).

The system-level part — that pull;push rounds do bring every replica to reach the same packs
and keep every ref readable — is validated by the correspondence run (replica schedules) and by
the theorems of C02 (each merge keeps both sides' packs) and C05 (clocks); it is not proved as
one invariant here.
-/
namespace GitBugModel.Props.C01
open GitBugModel.Dag

def nonEmpty (p : Pack) : Bool := !p.ops.isEmpty

/-- `read_ops_determined`: two successful reads (any stores, any heads) whose reachable
non-empty packs are the same multiset return the same operations in the same order. -/
theorem read_ops_determined {s₁ s₂ : Store} {h₁ h₂ : String} {e₁ e₂ : Entity}
    (r₁ : Dag.read s₁ h₁ = .ok e₁) (r₂ : Dag.read s₂ h₂ = .ok e₂)
    (hk : KeyOK e₁.packs) (hk₂ : KeyOK e₂.packs)
    (hperm : (e₁.packs.filter nonEmpty).Perm (e₂.packs.filter nonEmpty)) :
    e₁.ops = e₂.ops := by
  obtain ⟨_, _, _, _, _, ho₁, _⟩ := C03.read_wellformed r₁
  obtain ⟨_, _, _, _, _, ho₂, _⟩ := C03.read_wellformed r₂
  rw [ho₁, ho₂, opsOf_ignores_empty e₁.packs hk, opsOf_ignores_empty e₂.packs hk₂]
  apply opsOf_perm hperm
  intro a ha b hb
  exact hk a (List.mem_filter.mp ha).1 b (List.mem_filter.mp hb).1

/-- Merge commits are irrelevant: adding or removing packs without operations anywhere in a
pack multiset does not change the operation list. -/
theorem merge_commits_irrelevant (packs extra : List Pack) (hk : KeyOK (packs ++ extra))
    (hempty : ∀ p ∈ extra, p.ops = []) : opsOf (packs ++ extra) = opsOf packs := by
  have hk' : KeyOK packs := fun a ha b hb => hk a (List.mem_append_left _ ha) b (List.mem_append_left _ hb)
  rw [opsOf_ignores_empty _ hk, opsOf_ignores_empty packs hk']
  congr 1
  rw [List.filter_append]
  have : extra.filter (fun p => !p.ops.isEmpty) = [] := by
    rw [List.filter_eq_nil_iff]
    intro p hp
    simp [hempty p hp]
  rw [this, List.append_nil]

/-- `convergence`: two replicas whose heads reach the same operations-carrying commits — in
whatever DAG shape, with whatever merge commits each created — show the same operations in
the same order. -/
theorem convergence {sA sB : Store} {hA hB : String} {eA eB : Entity}
    (rA : Dag.read sA hA = .ok eA) (rB : Dag.read sB hB = .ok eB)
    (hkA : KeyOK eA.packs) (hkB : KeyOK eB.packs)
    (sameKnowledge : (eA.packs.filter nonEmpty).Perm (eB.packs.filter nonEmpty)) :
    eA.ops = eB.ops ∧ eA.ops.map (·.id) = eB.ops.map (·.id) := by
  have := read_ops_determined rA rB hkA hkB sameKnowledge
  exact ⟨this, by rw [this]⟩

/-- the result does not depend on the enumeration order of the pack map on either side -/
theorem convergence_enum_indep {s : Store} {h : String} {e : Entity} (r : Dag.read s h = .ok e)
    (hk : KeyOK e.packs) (enum₁ enum₂ : List Pack) (p₁ : enum₁.Perm e.packs) (p₂ : enum₂.Perm e.packs) :
    opsOf enum₁ = opsOf enum₂ := by
  rw [C03.read_enum_indep r hk enum₁ p₁, C03.read_enum_indep r hk enum₂ p₂]

/-! ## non-vacuity: the same three operation packs merged in two different shapes -/

private def pk (id : String) (ops : List String) (c e : Nat) : Except Err Pack :=
  .ok { id := id, author := "a", ops := ops.map (fun o => { id := o }), create := c, edit := e }
private def base : Store := [
  { hash := "R", parents := [], pack := pk "p0" ["create"] 1 1 },
  { hash := "A1", parents := ["R"], pack := pk "pa1" ["a1"] 0 2 },
  { hash := "B1", parents := ["R"], pack := pk "pb1" ["b1"] 0 2 },
  { hash := "B2", parents := ["B1"], pack := pk "pb2" ["b2"] 0 3 }]
/-- replica A merged (A1, B2); replica B merged (B2, A1) with another merge commit on top -/
private def storeA : Store := base ++ [{ hash := "MA", parents := ["A1", "B2"], pack := pk "pm" [] 0 4 }]
private def storeB : Store := base ++ [{ hash := "MB", parents := ["B2", "A1"], pack := pk "pm" [] 0 5 },
  { hash := "MB2", parents := ["MB", "A1"], pack := pk "pm" [] 0 6 }]

example : (match Dag.read storeA "MA", Dag.read storeB "MB2" with
    | .ok a, .ok b => a.ops.map (·.id) == b.ops.map (·.id) && a.ops.length == 4
    | _, _ => false) = true := by decide

end GitBugModel.Props.C01

import GitBugModel.Model.Crash
import GitBugModel.Props.C03
import GitBugModel.Gen.WritePaths
import GitBugModel.Model.Lamport
/-!
# C06 — a crash during any write leaves every entity in its old or its new state
-/
namespace GitBugModel.Props.C06
open GitBugModel.Dag GitBugModel.Crash

/-! ## reading is blind to objects nothing points to -/

/-- `s'` holds everything `s` holds, under the same hashes -/
def Extends (s s' : Store) : Prop := ∀ h c, lookup s h = some c → lookup s' h = some c

theorem bfs_mono {s s' : Store} (he : Extends s s') :
    ∀ (fuel fuel' : Nat) (q v : List String) (acc r : List Commit), fuel ≤ fuel' →
      bfs s fuel q v acc = .ok r → bfs s' fuel' q v acc = .ok r := by
  intro fuel
  induction fuel with
  | zero =>
    intro fuel' q v acc r _ h
    cases q with
    | nil => cases fuel' <;> simpa [bfs] using h
    | cons a t => simp [bfs] at h
  | succ n ih =>
    intro fuel' q v acc r hle h
    cases q with
    | nil => cases fuel' <;> simpa [bfs] using h
    | cons a t =>
      obtain ⟨m, rfl⟩ : ∃ m, fuel' = m + 1 := ⟨fuel' - 1, by omega⟩
      simp only [bfs] at h ⊢
      cases hl : lookup s a with
      | none => simp [hl] at h
      | some c =>
        rw [he a c hl]
        simp only [hl] at h
        exact ih m _ _ _ _ (by omega) h

/-- `read_mono`: an entity that reads fine keeps reading the same when objects are added -/
theorem read_mono {s s' : Store} (he : Extends s s') (hlen : s.length ≤ s'.length)
    (head : String) (e : Entity) (h : Dag.read s head = .ok e) : Dag.read s' head = .ok e := by
  unfold Dag.read at h ⊢
  cases hb : bfs s (s.length + 1) [head] [head] [] with
  | error x => simp [hb] at h
  | ok order =>
    rw [bfs_mono he _ (s'.length + 1) _ _ _ _ (by omega) hb]
    simpa [hb] using h

theorem viewAt_mono {s s' : Store} (he : Extends s s') (hlen : s.length ≤ s'.length)
    (head : String) (ops : List OpTok) (h : viewAt s head = some ops) : viewAt s' head = some ops := by
  unfold viewAt at h ⊢
  cases hr : Dag.read s head with
  | error x => simp [hr, Except.toOption] at h
  | ok e =>
    rw [read_mono he hlen head e hr]
    simpa [hr] using h

/-- a commit whose hash is new, or which is already stored as it is (content addressing) -/
def FreshOrSame (s : Store) (c : Commit) : Prop := lookup s c.hash = none ∨ lookup s c.hash = some c

theorem extends_append (s : Store) (c : Commit) (hf : lookup s c.hash = none) : Extends s (s ++ [c]) := by
  intro h d hl
  unfold lookup at hl ⊢
  rw [List.find?_append, hl]; rfl

theorem extends_refl (s : Store) : Extends s s := fun _ _ h => h
theorem extends_trans {a b c : Store} (h1 : Extends a b) (h2 : Extends b c) : Extends a c :=
  fun h d hl => h2 h d (h1 h d hl)

/-! ## crash points -/

/-- all refs of the state read fine -/
def Readable (σ : RState) : Prop := ∀ r ∈ σ.refs, ∃ ops, viewAt σ.store r.2 = some ops

/-- the objects a path writes carry new hashes (the hash is a hash of the content) -/
def FreshObjs : Store → List Mut → Prop
  | _, [] => True
  | s, .obj c :: rest => lookup s c.hash = none ∧ FreshObjs (s ++ [c]) rest
  | s, _ :: rest => FreshObjs s rest

theorem run_objlike (σ : RState) (ms : List Mut) (hall : ms.all isObjLike = true) (hf : FreshObjs σ.store ms) :
    (run σ ms).refs = σ.refs ∧ Extends σ.store (run σ ms).store ∧ σ.store.length ≤ (run σ ms).store.length := by
  induction ms generalizing σ with
  | nil => exact ⟨rfl, extends_refl _, Nat.le_refl _⟩
  | cons m t ih =>
    simp only [List.all_cons, Bool.and_eq_true] at hall
    cases m with
    | setRef n h => simp [isObjLike] at hall
    | obj c =>
      obtain ⟨hfc, hft⟩ := hf
      have := ih (applyMut σ (.obj c)) hall.2 hft
      simp only [run, List.foldl_cons] at this ⊢
      refine ⟨this.1, extends_trans (extends_append σ.store c hfc) this.2.1, ?_⟩
      have h2 := this.2.2
      have h3 : (applyMut σ (.obj c)).store.length = σ.store.length + 1 := by simp [applyMut]
      omega
    | aux =>
      have := ih (applyMut σ .aux) hall.2 hf
      simpa [run, applyMut] using this
    | clock n v =>
      have := ih (applyMut σ (.clock n v)) hall.2 hf
      simpa [run, applyMut] using this

theorem view_objlike (σ : RState) (ms : List Mut) (hall : ms.all isObjLike = true) (hf : FreshObjs σ.store ms)
    (hr : Readable σ) : view (run σ ms) = view σ := by
  obtain ⟨h1, h2, h3⟩ := run_objlike σ ms hall hf
  unfold view
  rw [h1]
  apply List.map_congr_left
  intro r hrm
  obtain ⟨ops, hops⟩ := hr r hrm
  rw [hops, viewAt_mono h2 h3 r.2 ops hops]

theorem freshObjs_take (s : Store) (ms : List Mut) (k : Nat) (hf : FreshObjs s ms) : FreshObjs s (ms.take k) := by
  induction ms generalizing s k with
  | nil => simp [FreshObjs]
  | cons m t ih =>
    cases k with
    | zero => simp [FreshObjs]
    | succ k =>
      cases m with
      | obj c => exact ⟨hf.1, ih _ k hf.2⟩
      | aux => exact ih _ k hf
      | setRef n h => exact ih _ k hf
      | clock n v => exact ih _ k hf

/-- `path_crash_atomic`: a path that writes its objects (and clocks) first and updates one ref
last, on a repository whose entities all read fine, interrupted after any number `k` of calls:
every reader sees exactly what it saw before the path started, or exactly what it sees after the
path finished. -/
theorem path_crash_atomic (σ : RState) (body : List Mut) (n h : String)
    (hall : body.all isObjLike = true) (hf : FreshObjs σ.store body) (hr : Readable σ) (k : Nat) :
    view (crash σ (body ++ [.setRef n h]) k) = view σ ∨
    view (crash σ (body ++ [.setRef n h]) k) = view (run σ (body ++ [.setRef n h])) := by
  by_cases hk : k ≤ body.length
  · left
    unfold crash
    rw [List.take_append_of_le_length hk]
    exact view_objlike σ _ (by
        rw [List.all_eq_true] at hall ⊢
        intro x hx; exact hall x (List.mem_of_mem_take hx))
      (freshObjs_take _ _ _ hf) hr
  · right
    unfold crash
    rw [List.take_of_length_le (by simp; omega)]

/-- the shape `path_crash_atomic` is stated for is the shape `disciplined` tests -/
theorem disciplined_shape (ms : List Mut) (h : disciplined ms = true) :
    ∃ body n hsh, ms = body ++ [.setRef n hsh] ∧ body.all isObjLike = true := by
  unfold disciplined at h
  cases hrev : ms.reverse with
  | nil => simp [hrev] at h
  | cons m rest =>
    cases m with
    | setRef n hsh =>
      simp only [hrev] at h
      refine ⟨rest.reverse, n, hsh, ?_, by simpa [List.all_reverse] using h⟩
      have := congrArg List.reverse hrev
      simpa using this
    | obj c => simp [hrev] at h
    | aux => simp [hrev] at h
    | clock a b => simp [hrev] at h

/-- `retry_completes`: running the whole path again on what a crash left (the objects are found
in place or written again, the ref is set) gives the readers what the uninterrupted path gives. -/
theorem retry_completes (σ : RState) (body : List Mut) (n h : String) (ops : List OpTok)
    (hall : body.all isObjLike = true) (hf : FreshObjs σ.store body)
    (hpost : viewAt (run σ body).store h = some ops) (k : Nat) (hk : k ≤ body.length)
    (s2 : Store) (hext : Extends (run σ body).store s2) (hlen : (run σ body).store.length ≤ s2.length) :
    viewAt s2 h = some ops :=
  viewAt_mono hext hlen h ops hpost

/-! ## clocks -/

/-- every edit time carried by a commit of the store is at most the persisted edit clock -/
def ClockCovers (σ : RState) (name : String) : Prop :=
  ∀ c ∈ σ.store, ∀ p, c.pack = .ok p → p.edit ≤ clockOf σ name

theorem find_setAssoc (cl : List (String × Nat)) (n : String) (v : Nat) :
    ((setAssoc cl n v).find? (fun x => x.1 == n)).map (·.2) = some v := by
  unfold setAssoc
  by_cases ha : cl.any (fun x => x.1 == n) = true
  · simp only [ha, if_true]
    induction cl with
    | nil => simp at ha
    | cons x t ih =>
      simp only [List.map_cons, List.find?_cons]
      by_cases hx : (x.1 == n) = true
      · simp [hx]
      · simp only [hx, Bool.false_eq_true, if_false]
        simp only [List.any_cons, hx, Bool.false_or] at ha
        exact ih ha
  · simp only [ha, Bool.false_eq_true, if_false]
    rw [List.find?_append]
    have : cl.find? (fun x => x.1 == n) = none := by
      rw [List.find?_eq_none]
      intro x hx hxn
      exact ha (List.any_eq_true.mpr ⟨x, hx, hxn⟩)
    simp [this]

theorem clockOf_set (cl : List (String × Nat)) (n : String) (v : Nat) (σ : RState) (h : σ.clocks = setAssoc cl n v) :
    clockOf σ n = v := by
  unfold clockOf
  rw [h, find_setAssoc]; rfl

/-- `clock_not_behind`: a path that persists the clock at `v` *before* it writes a commit carrying
the edit time `v` keeps, at every crash point, the persisted clock at least as high as every edit
time stored — provided it was so before. -/
theorem clock_not_behind (σ : RState) (name : String) (v : Nat) (c : Commit) (p : Pack)
    (hp : c.pack = .ok p) (hpe : p.edit ≤ v) (hcov : ClockCovers σ name) (hv : clockOf σ name ≤ v)
    (rest : List Mut) (hrest : ∀ m ∈ rest, match m with | .setRef _ _ => True | .aux => True | _ => False) (k : Nat) :
    ClockCovers (crash σ ([.clock name v, .obj c] ++ rest) k) name := by
  -- states after 0, 1, ≥ 2 calls
  have hrun : ∀ (τ : RState) (ms : List Mut), (∀ m ∈ ms, match m with | .setRef _ _ => True | .aux => True | _ => False) →
      (run τ ms).store = τ.store ∧ (run τ ms).clocks = τ.clocks := by
    intro τ ms
    induction ms generalizing τ with
    | nil => intro _; exact ⟨rfl, rfl⟩
    | cons m t ih =>
      intro hm
      have h1 := hm m List.mem_cons_self
      have h2 := ih (applyMut τ m) (fun x hx => hm x (List.mem_cons_of_mem _ hx))
      cases m <;> simp_all [run, applyMut]
  match k with
  | 0 => simpa [crash, run] using hcov
  | 1 =>
    intro d hd q hq
    have hc1 : clockOf (crash σ ([.clock name v, .obj c] ++ rest) 1) name = v :=
      clockOf_set σ.clocks name v _ (by simp [crash, run, applyMut])
    rw [hc1]
    have : d ∈ σ.store := by simpa [crash, run, applyMut] using hd
    exact Nat.le_trans (hcov d this q hq) hv
  | k + 2 =>
    intro d hd q hq
    have hsplit : crash σ ([.clock name v, .obj c] ++ rest) (k + 2) =
        run (applyMut (applyMut σ (.clock name v)) (.obj c)) (rest.take k) := by
      simp [crash, run]
    rw [hsplit] at hd ⊢
    obtain ⟨hs, hc⟩ := hrun (applyMut (applyMut σ (.clock name v)) (.obj c)) (rest.take k)
      (fun m hm => hrest m (List.mem_of_mem_take hm))
    have hcl : clockOf (run (applyMut (applyMut σ (.clock name v)) (.obj c)) (rest.take k)) name = v :=
      clockOf_set σ.clocks name v _ (by rw [hc]; simp [applyMut])
    rw [hcl]
    rw [hs] at hd
    simp only [applyMut, List.mem_append, List.mem_singleton] at hd
    rcases hd with hd | rfl
    · exact Nat.le_trans (hcov d hd q hq) hv
    · rw [hp] at hq; cases hq; exact hpe

/-- the converse order (commit first, clock afterwards) has a crash point at which a stored edit
time exceeds the persisted clock (kernel-checked witness) -/
theorem commit_before_clock_is_behind :
    let σ : RState := { store := [], refs := [], clocks := [("bugs-edit", 3)] }
    let c : Commit := { hash := "C", parents := [], pack := .ok { id := "p", author := "a", ops := [], create := 1, edit := 4 } }
    ¬ ClockCovers (crash σ [.obj c, .clock "bugs-edit" 4] 1) "bugs-edit" := by
  intro σ c h
  have := h c (by simp [crash, run, applyMut, σ]) _ rfl
  simp [clockOf, crash, run, applyMut, σ, c] at this

/-! ## the clock file itself: a write is a sequence of file operations -/

open GitBugModel.Lamport in
/-- the two ways to write a clock file, as the states of the file after each file operation:
truncating in place (`util.WriteFile`: open with O_TRUNC, write, close) or writing a temporary
file and renaming it over the old one -/
def clockFileStates (atomic : Bool) (old : FileState) (v : Nat) : List FileState :=
  if atomic then [old, old, old, .value v]       -- before; temp created; temp written; renamed
  else [old, .garbage, .value v]                 -- before; truncated (empty or partial); written

open GitBugModel.Lamport in
/-- `atomic_clock_write`: with a rename, a crash after any number of file operations leaves the
old or the new content, never a torn file -/
theorem atomic_clock_write (old : FileState) (v : Nat) :
    ∀ st ∈ clockFileStates true old v, st = old ∨ st = .value v := by
  intro st h
  simp [clockFileStates] at h
  rcases h with h | h <;> simp [h]

open GitBugModel.Lamport in
/-- the truncating write has a crash point with a torn file, and a torn file is an error for every
later clock operation of a fresh process (C05.torn_clock_errors): the repository cannot be opened -/
theorem truncating_clock_write_tears (v w : Nat) :
    FileState.garbage ∈ clockFileStates false (.value w) v ∧
    (step { mem := none, file := .garbage } .inc).2 = .err ∧
    (step { mem := none, file := .garbage } .time).2 = .err := by
  simp [clockFileStates, step, getOrCreate]

/-! ## regenerated obligations: the write paths found in the source now -/

def refCalls : List String := ["UpdateRef", "CopyRef"]

/-- index of the last occurrence -/
def lastIdx (l : List String) (x : String) : Option Nat :=
  ((l.zipIdx.filter (fun p => p.1 == x)).getLast?).map (·.2)

def pathOk (p : String × List (String × Nat) × List String) : Bool :=
  -- nothing is written after a ref update within the same block
  p.2.2.isEmpty &&
  -- a ref update is not inside a loop (MergeAll handles one entity per iteration)
  (p.1 == "identity:MergeAll" || p.2.1.all (fun c => !refCalls.contains c.1 || c.2 == 0))

/-- a function that sets a ref does so as the last storage mutation in source order -/
def refLast (p : String × List (String × Nat) × List String) : Bool :=
  match p.2.1.getLast? with
  | some c => !(p.2.1.any (fun c => refCalls.contains c.1)) || refCalls.contains c.1 || p.1 == "identity:MergeAll"
  | none => false

/-- the edit clock is incremented (and persisted) before the commit that carries its value is written -/
def clockFirst (name : String) : Bool :=
  match GitBugModel.Gen.WritePaths.paths.lookup name with
  | some (calls, _) =>
    match lastIdx (calls.map (·.1)) "Increment", lastIdx (calls.map (·.1)) "call:Write" with
    | some i, some w => i < w
    | _, _ => false
  | none => false

theorem gen_paths_disciplined :
    GitBugModel.Gen.WritePaths.paths.all (fun p => pathOk p && refLast p) = true ∧
    ["dag:Entity.Commit", "dag:operationPack.Write", "dag:merge", "identity:Identity.Commit", "identity:Identity.Merge",
     "identity:version.Write", "identity:MergeAll"].all (fun n => (GitBugModel.Gen.WritePaths.paths.lookup n).isSome) = true ∧
    clockFirst "dag:Entity.Commit" = true ∧ clockFirst "dag:merge" = true := by
  decide

/-- the clock file is replaced by a rename in the source now -/
theorem gen_clock_write_atomic :
    GitBugModel.Gen.WritePaths.clockWrite.contains "Rename" = true := by
  decide

/-- a clock is created by the same atomic write as every later value (no file is created and
filled in two steps), and only a missing file is reported as "this clock does not exist" — any
other failure to open it is an error, so that an intact clock is never started anew -/
theorem gen_clock_create_atomic :
    GitBugModel.Gen.WritePaths.clockCreate = ["Write"] ∧
    GitBugModel.Gen.WritePaths.clockNotExist = ["os.IsNotExist(err)"] := by
  decide

/-! ## several entities in one write path (MergeAll, pull): each entity old or new -/


/-- what a reader sees under one ref name: nothing when the ref does not exist -/
def refView (σ : RState) (n : String) : Option (Option (List OpTok)) :=
  (σ.refs.find? (fun r => r.1 == n)).map (fun r => viewAt σ.store r.2)

/-- the hash the last `setRef n` of the list sets -/
def lastSet (ms : List Mut) (n : String) : Option String :=
  ms.foldl (fun acc m => match m with | .setRef n' h => if n' == n then some h else acc | _ => acc) none

theorem find_setAssoc_self {α} (l : List (String × α)) (k : String) (v : α) :
    (setAssoc l k v).find? (fun x => x.1 == k) = some (k, v) := by
  unfold setAssoc
  by_cases ha : l.any (fun x => x.1 == k) = true
  · simp only [ha, if_true]
    induction l with
    | nil => simp at ha
    | cons x t ih =>
      simp only [List.map_cons, List.find?_cons]
      by_cases hx : (x.1 == k) = true
      · simp [hx]
      · simp only [hx, Bool.false_eq_true, if_false]
        simp only [List.any_cons, hx, Bool.false_or] at ha
        exact ih ha
  · simp only [ha, Bool.false_eq_true, if_false]
    rw [List.find?_append]
    have : l.find? (fun x => x.1 == k) = none := by
      rw [List.find?_eq_none]
      intro x hx hxn
      exact ha (List.any_eq_true.mpr ⟨x, hx, hxn⟩)
    simp [this]

theorem find_map_other' {α} (l : List (String × α)) (k k' : String) (v : α) (hne : k ≠ k') :
    (l.map (fun x => if (x.1 == k) = true then (k, v) else x)).find? (fun x => x.1 == k') = l.find? (fun x => x.1 == k') := by
  have hk : (k == k') = false := by simpa using hne
  induction l with
  | nil => rfl
  | cons x t ih =>
    simp only [List.map_cons, List.find?_cons]
    by_cases hx : (x.1 == k) = true
    · have hx' : x.1 = k := by simpa using hx
      have h2 : (x.1 == k') = false := by rw [hx']; exact hk
      simp only [hx, if_true, hk, h2]
      exact ih
    · simp only [hx, Bool.false_eq_true, if_false]
      by_cases hx2 : (x.1 == k') = true
      · simp [hx2]
      · simp only [hx2, Bool.false_eq_true, if_false]
        exact ih

theorem find_setAssoc_other {α} (l : List (String × α)) (k k' : String) (v : α) (hne : k ≠ k') :
    (setAssoc l k v).find? (fun x => x.1 == k') = l.find? (fun x => x.1 == k') := by
  unfold setAssoc
  have hk : (k == k') = false := by simpa using hne
  by_cases ha : l.any (fun x => x.1 == k) = true
  · simp only [ha, if_true]
    exact find_map_other' l k k' v hne
  · simp only [ha, Bool.false_eq_true, if_false]
    rw [List.find?_append]
    cases hf : l.find? (fun x => x.1 == k') with
    | some w => rfl
    | none => simp [List.find?_cons, hk]

/-- the ref table after a run: the last `setRef` of the name, or what was there before -/
theorem refs_run (ms : List Mut) : ∀ (σ : RState) (n : String),
    (run σ ms).refs.find? (fun r => r.1 == n) =
      match lastSet ms n with
      | some h => some (n, h)
      | none => σ.refs.find? (fun r => r.1 == n) := by
  -- generalise the accumulator of lastSet
  have gen : ∀ (ms : List Mut) (σ : RState) (n : String) (acc : Option String),
      (acc.isSome → σ.refs.find? (fun r => r.1 == n) = acc.map (fun h => (n, h))) →
      (run σ ms).refs.find? (fun r => r.1 == n) =
        match ms.foldl (fun acc m => match m with | .setRef n' h => if n' == n then some h else acc | _ => acc) acc with
        | some h => some (n, h)
        | none => σ.refs.find? (fun r => r.1 == n) := by
    intro ms
    induction ms with
    | nil =>
      intro σ n acc hacc
      simp only [run, List.foldl_nil]
      cases acc with
      | none => rfl
      | some h => simpa using hacc rfl
    | cons m t ih =>
      intro σ n acc hacc
      simp only [run, List.foldl_cons]
      cases m with
      | setRef n' h =>
        by_cases hn : (n' == n) = true
        · have hn' : n' = n := by simpa using hn
          subst hn'
          have := ih (applyMut σ (.setRef n' h)) n' (some h) (by
            intro _; simp [applyMut, find_setAssoc_self])
          simp only [run] at this
          simp only [beq_self_eq_true, if_true]
          rw [this]
          cases hfold : t.foldl (fun acc m => match m with | .setRef n'' h => if n'' == n' then some h else acc | _ => acc) (some h) with
          | some _ => rfl
          | none =>
            -- the accumulator never goes back to none
            exfalso
            have mono : ∀ (u : List Mut) (a : String), (u.foldl (fun acc m => match m with | .setRef n'' h => if n'' == n' then some h else acc | _ => acc) (some a)).isSome := by
              intro u
              induction u with
              | nil => intro a; rfl
              | cons x u ihu =>
                intro a
                simp only [List.foldl_cons]
                cases x <;> simp only <;> (try exact ihu a)
                split
                · exact ihu _
                · exact ihu a
            have := mono t h
            rw [hfold] at this
            cases this
        · have hne : n' ≠ n := by simpa using hn
          have hfind : (applyMut σ (.setRef n' h)).refs.find? (fun r => r.1 == n) = σ.refs.find? (fun r => r.1 == n) := by
            simp [applyMut, find_setAssoc_other _ _ _ _ hne]
          have := ih (applyMut σ (.setRef n' h)) n acc (by rw [hfind]; exact hacc)
          simp only [run] at this
          simp only [hn, Bool.false_eq_true, if_false]
          rw [this, hfind]
      | obj c =>
        have := ih (applyMut σ (.obj c)) n acc (by simpa [applyMut] using hacc)
        simp only [run] at this
        rw [this]; simp [applyMut]
      | aux =>
        have := ih (applyMut σ .aux) n acc (by simpa [applyMut] using hacc)
        simp only [run] at this
        rw [this]; simp [applyMut]
      | clock a b =>
        have := ih (applyMut σ (.clock a b)) n acc (by simpa [applyMut] using hacc)
        simp only [run] at this
        rw [this]; simp [applyMut]
  intro σ n
  exact gen ms σ n none (by intro h; cases h)


def setsName (n : String) : Mut → Bool
  | .setRef n' _ => n' == n
  | _ => false

def lastSetAcc (ms : List Mut) (n : String) (acc : Option String) : Option String :=
  ms.foldl (fun acc m => match m with | .setRef n' h => if n' == n then some h else acc | _ => acc) acc

theorem lastSet_eq (ms : List Mut) (n : String) : lastSet ms n = lastSetAcc ms n none := rfl

theorem lastSetAcc_none_of_no_set (ms : List Mut) (n : String) :
    ∀ (acc : Option String), (∀ m ∈ ms, setsName n m = false) → lastSetAcc ms n acc = acc := by
  induction ms with
  | nil => intro acc _; rfl
  | cons m t ih =>
    intro acc h
    unfold lastSetAcc
    simp only [List.foldl_cons]
    have hm := h m List.mem_cons_self
    have ht : ∀ acc', lastSetAcc t n acc' = acc' := fun acc' => ih acc' (fun x hx => h x (List.mem_cons_of_mem _ hx))
    cases m with
    | setRef n' hh =>
      simp only [setsName] at hm
      simp only [hm, Bool.false_eq_true, if_false]
      exact ht acc
    | obj c => exact ht acc
    | aux => exact ht acc
    | clock a b => exact ht acc

theorem lastSetAcc_append (a b : List Mut) (n : String) (acc : Option String) :
    lastSetAcc (a ++ b) n acc = lastSetAcc b n (lastSetAcc a n acc) := by
  unfold lastSetAcc; rw [List.foldl_append]

/-- every ref update of the path points at something that reads fine at that moment -/
def TargetsReadable : RState → List Mut → Prop
  | _, [] => True
  | σ, .setRef n h :: rest => (∃ ops, viewAt σ.store h = some ops) ∧ TargetsReadable (applyMut σ (.setRef n h)) rest
  | σ, m :: rest => TargetsReadable (applyMut σ m) rest

theorem run_store_mono (ms : List Mut) : ∀ (σ : RState), FreshObjs σ.store ms →
    Extends σ.store (run σ ms).store ∧ σ.store.length ≤ (run σ ms).store.length := by
  induction ms with
  | nil => intro σ _; exact ⟨extends_refl _, Nat.le_refl _⟩
  | cons m t ih =>
    intro σ hf
    cases m with
    | obj c =>
      obtain ⟨hfc, hft⟩ := hf
      have := ih (applyMut σ (.obj c)) hft
      simp only [run, List.foldl_cons] at this ⊢
      refine ⟨extends_trans (extends_append σ.store c hfc) this.1, ?_⟩
      have h3 : (applyMut σ (.obj c)).store.length = σ.store.length + 1 := by simp [applyMut]
      omega
    | aux => have := ih (applyMut σ .aux) hf; simpa [run, applyMut] using this
    | setRef n h => have := ih (applyMut σ (.setRef n h)) hf; simpa [run, applyMut] using this
    | clock a b => have := ih (applyMut σ (.clock a b)) hf; simpa [run, applyMut] using this

theorem freshObjs_append (a b : List Mut) : ∀ (σ : RState), FreshObjs σ.store (a ++ b) →
    FreshObjs σ.store a ∧ FreshObjs (run σ a).store b := by
  induction a with
  | nil => intro σ h; exact ⟨trivial, h⟩
  | cons m t ih =>
    intro σ h
    cases m with
    | obj c =>
      obtain ⟨h1, h2⟩ := h
      have := ih (applyMut σ (.obj c)) h2
      exact ⟨⟨h1, this.1⟩, by simpa [run] using this.2⟩
    | aux => have := ih (applyMut σ .aux) h; exact ⟨this.1, by simpa [run] using this.2⟩
    | setRef n hh => have := ih (applyMut σ (.setRef n hh)) h; exact ⟨this.1, by simpa [run] using this.2⟩
    | clock x y => have := ih (applyMut σ (.clock x y)) h; exact ⟨this.1, by simpa [run] using this.2⟩

theorem run_append (σ : RState) (a b : List Mut) : run σ (a ++ b) = run (run σ a) b := by
  simp [run, List.foldl_append]

/-- the target of the last update of `n` reads fine at the end of the run -/
theorem last_target_readable (ms : List Mut) : ∀ (σ : RState) (n h : String) (acc : Option String),
    TargetsReadable σ ms → FreshObjs σ.store ms →
    (∀ a, acc = some a → ∃ ops, viewAt σ.store a = some ops) →
    lastSetAcc ms n acc = some h → ∃ ops, viewAt (run σ ms).store h = some ops := by
  induction ms with
  | nil =>
    intro σ n h acc _ _ hacc hl
    exact hacc h hl
  | cons m t ih =>
    intro σ n h acc htr hf hacc hl
    unfold lastSetAcc at hl
    simp only [List.foldl_cons] at hl
    cases m with
    | setRef n' hh =>
      obtain ⟨hread, hrest⟩ := htr
      have hrun : run σ (.setRef n' hh :: t) = run (applyMut σ (.setRef n' hh)) t := rfl
      rw [hrun]
      apply ih (applyMut σ (.setRef n' hh)) n h _ hrest hf _ hl
      intro a ha
      by_cases hn : (n' == n) = true
      · simp only [hn, if_true] at ha
        injection ha with ha; subst ha
        simpa [applyMut] using hread
      · simp only [hn, Bool.false_eq_true, if_false] at ha
        simpa [applyMut] using hacc a ha
    | obj c =>
      obtain ⟨hfc, hft⟩ := hf
      have hrun : run σ (.obj c :: t) = run (applyMut σ (.obj c)) t := rfl
      rw [hrun]
      apply ih (applyMut σ (.obj c)) n h acc htr hft _ hl
      intro a ha
      obtain ⟨ops, hops⟩ := hacc a ha
      exact ⟨ops, viewAt_mono (extends_append σ.store c hfc) (by simp [applyMut]) a ops hops⟩
    | aux =>
      have hrun : run σ (.aux :: t) = run (applyMut σ .aux) t := rfl
      rw [hrun]
      exact ih (applyMut σ .aux) n h acc htr hf (by simpa [applyMut] using hacc) hl
    | clock x y =>
      have hrun : run σ (.clock x y :: t) = run (applyMut σ (.clock x y)) t := rfl
      rw [hrun]
      exact ih (applyMut σ (.clock x y)) n h acc htr hf (by simpa [applyMut] using hacc) hl

theorem targetsReadable_take (ms : List Mut) : ∀ (σ : RState) (k : Nat), TargetsReadable σ ms → TargetsReadable σ (ms.take k) := by
  induction ms with
  | nil => intro σ k _; simp [TargetsReadable]
  | cons m t ih =>
    intro σ k h
    cases k with
    | zero => simp [TargetsReadable]
    | succ k =>
      cases m with
      | setRef n hh => exact ⟨h.1, ih _ k h.2⟩
      | obj c => exact ih _ k h
      | aux => exact ih _ k h
      | clock x y => exact ih _ k h

/-- `multi_entity_crash_atomic`: a write path that updates several refs — `MergeAll` over many
entities, a pull — each at most once, each to a head that reads fine when it is set, on a
repository whose entities all read fine, interrupted after any number `k` of calls: under every ref
name a reader sees exactly what it saw before the path started or exactly what it sees after the
path finished.  Each entity is old or new, never a mixture. -/
theorem multi_entity_crash_atomic (σ : RState) (ms : List Mut)
    (hf : FreshObjs σ.store ms) (htr : TargetsReadable σ ms) (hr : Readable σ)
    (hOnce : ∀ n, (ms.filter (setsName n)).length ≤ 1) (k : Nat) (n : String) :
    refView (crash σ ms k) n = refView σ n ∨ refView (crash σ ms k) n = refView (run σ ms) n := by
  unfold crash
  -- split the path at the crash point
  have hsplit : ms = ms.take k ++ ms.drop k := (List.take_append_drop k ms).symm
  have hfP := freshObjs_take σ.store ms k hf
  have hfS : FreshObjs (run σ (ms.take k)).store (ms.drop k) := by
    have := freshObjs_append (ms.take k) (ms.drop k) σ (by rw [← hsplit]; exact hf)
    exact this.2
  have monoP := run_store_mono (ms.take k) σ hfP
  have monoS := run_store_mono (ms.drop k) (run σ (ms.take k)) hfS
  have hfull : run σ ms = run (run σ (ms.take k)) (ms.drop k) := by
    conv => lhs; rw [hsplit]
    exact run_append σ _ _
  unfold refView
  rw [refs_run (ms.take k) σ n]
  cases hl : lastSet (ms.take k) n with
  | none =>
    left
    simp only
    cases hfind : σ.refs.find? (fun r => r.1 == n) with
    | none => rfl
    | some r =>
      simp only [Option.map_some]
      have hmem : r ∈ σ.refs := List.mem_of_find?_eq_some hfind
      obtain ⟨ops, hops⟩ := hr r hmem
      rw [hops, viewAt_mono monoP.1 monoP.2 r.2 ops hops]
  | some h =>
    right
    simp only [Option.map_some]
    -- the target reads fine at the crash point and at the end
    rw [lastSet_eq] at hl
    obtain ⟨ops, hops⟩ := last_target_readable (ms.take k) σ n h none (targetsReadable_take ms σ k htr) hfP
      (by intro a ha; cases ha) hl
    -- nobody sets n again afterwards
    have hnone : ∀ m ∈ ms.drop k, setsName n m = false := by
      intro m hm
      cases hs : setsName n m with
      | false => rfl
      | true =>
        exfalso
        -- there is one in the prefix too
        have hpre : ∃ m' ∈ ms.take k, setsName n m' = true := by
          apply Classical.byContradiction
          intro hno
          have : ∀ m' ∈ ms.take k, setsName n m' = false := by
            intro m' hm'
            cases hs' : setsName n m' with
            | false => rfl
            | true => exact absurd ⟨m', hm', hs'⟩ hno
          rw [lastSetAcc_none_of_no_set (ms.take k) n none this] at hl
          cases hl
        obtain ⟨m', hm', hs'⟩ := hpre
        have hcount := hOnce n
        rw [hsplit, List.filter_append, List.length_append] at hcount
        have h1 : 1 ≤ ((ms.take k).filter (setsName n)).length :=
          List.length_pos_of_mem (List.mem_filter.mpr ⟨hm', hs'⟩)
        have h2 : 1 ≤ ((ms.drop k).filter (setsName n)).length :=
          List.length_pos_of_mem (List.mem_filter.mpr ⟨hm, hs⟩)
        omega
    have hlast : lastSet ms n = some h := by
      rw [lastSet_eq]
      conv => lhs; rw [hsplit]
      rw [lastSetAcc_append, hl, lastSetAcc_none_of_no_set (ms.drop k) n (some h) hnone]
    rw [refs_run ms σ n, hlast]
    simp only [Option.map_some]
    rw [hops, hfull, viewAt_mono monoS.1 monoS.2 h ops hops]


/-- non-vacuity: a `MergeAll` that fast-forwards one bug and creates another: two ref updates, the
hypotheses hold, and at the crash point between them one bug is new and the other still old -/
example :
    let pk := fun (id : String) (ops : List String) (c e : Nat) =>
      (Except.ok { id := id, author := "a", ops := ops.map (fun o => ({ id := o } : OpTok)), create := c, edit := e } : Except Err Pack)
    let σ : RState := { store := [{ hash := "R1", parents := [], pack := pk "p1" ["b1"] 1 1 },
                                  { hash := "A2", parents := ["R1"], pack := pk "p2" ["x"] 0 2 },
                                  { hash := "R2", parents := [], pack := pk "p3" ["b2"] 2 3 }],
                        refs := [("refs/bugs/b1", "R1")], clocks := [] }
    let ms : List Mut := [.clock "bugs-edit" 3, .setRef "refs/bugs/b1" "A2", .aux, .setRef "refs/bugs/b2" "R2"]
    (ms.filter (setsName "refs/bugs/b1")).length = 1 ∧
    refView (crash σ ms 2) "refs/bugs/b1" = refView (run σ ms) "refs/bugs/b1" ∧
    refView (crash σ ms 2) "refs/bugs/b2" = refView σ "refs/bugs/b2" ∧
    refView (crash σ ms 2) "refs/bugs/b2" ≠ refView (run σ ms) "refs/bugs/b2" := by
  decide


/-! ## non-vacuity -/

example : disciplined [.clock "bugs-edit" 4, .aux, .aux, .obj default, .setRef "refs/bugs/x" "h"] = true ∧
    disciplined [.obj default, .setRef "refs/bugs/x" "h", .obj default] = false ∧
    disciplined [.setRef "a" "b", .setRef "refs/bugs/x" "h"] = false := by decide

end GitBugModel.Props.C06

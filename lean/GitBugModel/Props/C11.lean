import GitBugModel.Model.Cache
import GitBugModel.Model.CacheStaged
import GitBugModel.Model.Lru
import GitBugModel.Gen.Evict
/-!
# C11 — the cache always agrees with a cache rebuilt from the git data
-/
namespace GitBugModel.Props.C11
section Coarse
open GitBugModel.Cache

variable {E : Type}

/-- Coherence: excerpts and index are exactly what git holds, and every loaded instance is the
entity its ref reads as. -/
structure Coh (s : St E) : Prop where
  excerpts : s.excerpts = s.repo
  index : s.index = s.repo
  loaded : ∀ id e, s.loaded id = some e → s.repo id = some e

theorem coh_rebuild (repo : Map E) (ids : List String) : Coh (rebuild repo ids) :=
  ⟨rfl, rfl, fun _ _ h => h⟩

theorem upd_same (m : Map E) (k : String) (v : Option E) : upd m k v k = v := by simp [upd]

/-- `coh_step`: every action — creating, committing an edit, taking a merge result, removing,
evicting, resolving, closing and reopening — preserves coherence. -/
theorem coh_step (s : St E) (a : Act E) (h : Coh s) : Coh (step s a) := by
  obtain ⟨he, hi, hl⟩ := h
  cases a with
  | new id e =>
    refine ⟨by simp [step, he], by simp [step, hi], ?_⟩
    intro x e' hx
    simp only [step, upd] at hx ⊢
    split at hx <;> simp_all
  | commit id e =>
    refine ⟨by simp [step, he], by simp [step, hi], ?_⟩
    intro x e' hx
    simp only [step, upd] at hx ⊢
    split at hx <;> simp_all
  | merged id e =>
    refine ⟨by simp [step, he], by simp [step, hi], ?_⟩
    intro x e' hx
    simp only [step, upd] at hx ⊢
    split at hx <;> simp_all
  | mergedNothing => exact ⟨he, hi, hl⟩
  | remove id =>
    refine ⟨by simp [step, he], by simp [step, hi], ?_⟩
    intro x e' hx
    simp only [step, upd] at hx ⊢
    split at hx <;> simp_all
  | evict id =>
    refine ⟨he, hi, ?_⟩
    intro x e' hx
    simp only [step, upd] at hx ⊢
    split at hx
    · cases hx
    · exact hl x e' hx
  | resolve id =>
    refine ⟨he, hi, ?_⟩
    intro x e' hx
    simp only [step, upd] at hx ⊢
    split at hx
    · rename_i hxi; subst hxi; exact hx
    · exact hl x e' hx
  | reopen =>
    simp only [step]
    split
    · exact ⟨he, hi, fun _ _ hx => by cases hx⟩
    · exact coh_rebuild _ _

theorem coh_run (s : St E) (as : List (Act E)) (h : Coh s) : Coh (as.foldl step s) := by
  induction as generalizing s with
  | nil => exact h
  | cons a t ih => exact ih _ (coh_step s a h)

/-- `served_eq_rebuild`: in a coherent state the cache serves exactly what a cache rebuilt from the
git data serves. -/
theorem served_eq_rebuild (s : St E) (h : Coh s) :
    (served s).excerpts = (served (rebuild s.repo s.ids)).excerpts ∧
    (served s).index = (served (rebuild s.repo s.ids)).index ∧
    (served s).resolved = (served (rebuild s.repo s.ids)).resolved := by
  refine ⟨h.excerpts, h.index, ?_⟩
  funext id
  simp only [served, rebuild]
  cases hl : s.loaded id with
  | none => cases s.repo id <;> rfl
  | some e => rw [h.loaded id e hl]

/-- C11 for every session: starting from a rebuilt cache, after any sequence of actions the cache
serves what a rebuild would. -/
theorem session_coherent (repo : Map E) (ids : List String) (as : List (Act E)) :
    let s := as.foldl step (rebuild repo ids)
    (served s).excerpts = s.repo ∧ (served s).index = s.repo ∧
    (served s).resolved = (served (rebuild s.repo s.ids)).resolved := by
  have h := coh_run (rebuild repo ids) as (coh_rebuild repo ids)
  exact ⟨h.excerpts, h.index, (served_eq_rebuild _ h).2.2⟩

/-- `pull_visible`: a merge result makes the entity visible in excerpts, index and resolution -/
theorem pull_visible (s : St E) (id : String) (e : E) :
    (served (step s (.merged id e))).excerpts id = some e ∧ (served (step s (.merged id e))).index id = some e ∧
    (served (step s (.merged id e))).resolved id = some e := by
  simp [served, step, upd]

/-- `edit_after_merge`: the instance kept after a merge is the merged entity, so an edit through
the cache builds on it -/
theorem loaded_after_merge (s : St E) (id : String) (e : E) : (step s (.merged id e)).loaded id = some e := by
  simp [step, upd]

/-- removal: gone from everything, nothing else touched -/
theorem remove_spec (s : St E) (id other : String) (hne : other ≠ id) :
    (step s (.remove id)).excerpts id = none ∧ (step s (.remove id)).index id = none ∧ (step s (.remove id)).repo id = none ∧
    (step s (.remove id)).excerpts other = s.excerpts other ∧ (step s (.remove id)).index other = s.index other := by
  simp [step, upd, hne]

/-- The pinned tree's interception of merge results (no index update) is *not* coherence
preserving: a concrete session in which a pulled entity is not in the index. -/
theorem merged_without_index_incoherent :
    let s0 : St Nat := rebuild (fun _ => none) []
    let s1 := stepMergedNoIndex s0 "b" 7
    s1.index "b" = none ∧ s1.repo "b" = some 7 := by
  simp [stepMergedNoIndex, rebuild, upd]

/-! ## non-vacuity -/

example : let s := [Act.new "a" 1, .merged "b" 2, .commit "a" 3, .evict "a", .reopen, .resolve "b", .remove "a"].foldl step (rebuild (fun _ => (none : Option Nat)) [])
    (s.excerpts "a", s.excerpts "b", s.index "b", s.loaded "b", s.repo "a") = (none, some 2, some 2, some 2, none) := by
  decide



end Coarse

/-! # The finer model: staging areas and the excerpt file (GitBugModel.CacheStaged) -/
namespace Staged
open GitBugModel.CacheStaged

variable {Op : Type}

/-- Coherence of the finer model: the excerpt file and the index say what the excerpt map says;
a loaded instance's committed part is what its ref holds and its excerpt is made from all of its
operations, staged ones included; the excerpt of an entity that is not loaded is what git holds. -/
structure Coh (s : St Op) : Prop where
  file : s.file = some s.excerpts
  index : s.index = s.excerpts
  loaded : ∀ id l, s.loaded id = some l → s.repo id = some l.committed ∧ s.excerpts id = some l.all
  unloaded : ∀ id, s.loaded id = none → s.excerpts id = s.repo id
  support : ∀ id, id ∉ s.ids → s.repo id = none

/-- a quiescent point: nothing is staged -/
def Quiescent (s : St Op) : Prop := ∀ id l, s.loaded id = some l → l.staged = []

theorem upd_same {α : Type} (m : Map α) (k : String) (v : Option α) : upd m k v k = v := by simp [upd]
theorem upd_other {α : Type} (m : Map α) (k x : String) (v : Option α) (h : x ≠ k) : upd m k v x = m x := by simp [upd, h]

theorem coh_rebuild (repo : Map (List Op)) (ids : List String) (hs : ∀ id, id ∉ ids → repo id = none) :
    Coh (rebuild repo ids) := by
  refine ⟨rfl, rfl, ?_, ?_, hs⟩
  · intro id l h
    simp only [rebuild] at h ⊢
    cases hr : repo id with
    | none => simp [hr] at h
    | some c =>
      simp only [hr, Option.map_some, Option.some.injEq] at h
      subst h
      simp [Loaded.all]
  · intro id h
    simp only [rebuild] at h ⊢

theorem quiescent_rebuild (repo : Map (List Op)) (ids : List String) : Quiescent (rebuild repo ids) := by
  intro id l h
  simp only [rebuild] at h
  cases hr : repo id with
  | none => simp [hr] at h
  | some c =>
    simp only [hr, Option.map_some, Option.some.injEq] at h
    subst h; rfl

/-- the actions that change one entity keep coherence when what they install is consistent -/
theorem coh_install (s : St Op) (h : Coh s) (id : String) (r : Option (List Op)) (l : Option (Loaded Op))
    (v : Option (List Op)) (ids' : List String)
    (hl : ∀ l0, l = some l0 → r = some l0.committed ∧ v = some l0.all)
    (hn : l = none → v = r)
    (hids : ∀ x, x ∉ ids' → x ∉ s.ids) (hid : id ∉ ids' → r = none) :
    Coh (install s id r l v ids') := by
  obtain ⟨hf, hi, hlo, hun, hsup⟩ := h
  refine ⟨rfl, ?_, ?_, ?_, ?_⟩
  · simp only [install, publish]; rw [hi]
  · intro x l0 hx
    simp only [install, publish] at hx ⊢
    by_cases hxi : x = id
    · subst hxi
      rw [upd_same] at hx
      rw [upd_same, upd_same]
      exact hl l0 hx
    · rw [upd_other _ _ _ _ hxi] at hx
      rw [upd_other _ _ _ _ hxi, upd_other _ _ _ _ hxi]
      exact hlo x l0 hx
  · intro x hx
    simp only [install, publish] at hx ⊢
    by_cases hxi : x = id
    · subst hxi
      rw [upd_same] at hx
      rw [upd_same, upd_same]
      exact hn hx
    · rw [upd_other _ _ _ _ hxi] at hx
      rw [upd_other _ _ _ _ hxi, upd_other _ _ _ _ hxi]
      exact hun x hx
  · intro x hx
    simp only [install, publish] at hx ⊢
    by_cases hxi : x = id
    · subst hxi; rw [upd_same]; exact hid hx
    · rw [upd_other _ _ _ _ hxi]; exact hsup x (hids x hx)

/-- loaded instances are within the finite support -/
theorem loaded_in_ids (s : St Op) (h : Coh s) (id : String) (l : Loaded Op) (hl : s.loaded id = some l) : id ∈ s.ids := by
  apply Classical.byContradiction
  intro hn
  have := h.support id hn
  rw [(h.loaded id l hl).1] at this
  cases this

/-- `dirty` is exact: it is false exactly at quiescent points -/
theorem dirty_false_iff (s : St Op) (h : Coh s) : dirty s = false ↔ Quiescent s := by
  constructor
  · intro hd id l hl
    have hin := loaded_in_ids s h id l hl
    simp only [dirty, List.any_eq_false] at hd
    have := hd id hin
    simp only [hl, Bool.not_eq_true, Bool.not_eq_false', List.isEmpty_iff] at this
    exact this
  · intro hq
    simp only [dirty, List.any_eq_false]
    intro id _
    cases hl : s.loaded id with
    | none => simp
    | some l => simp [hq id l hl]

theorem coh_openFrom_file (s : St Op) (h : Coh s) (hq : Quiescent s) : Coh (openFrom s s.file) := by
  rw [h.file]
  simp only [openFrom]
  split
  · refine ⟨rfl, h.index, ?_, ?_, h.support⟩
    · intro id l hl; cases hl
    · intro id _
      cases hl : s.loaded id with
      | none => exact h.unloaded id hl
      | some l =>
        obtain ⟨h1, h2⟩ := h.loaded id l hl
        rw [h1, h2, Loaded.all, hq id l hl, List.append_nil]
  · exact coh_rebuild _ _ h.support

/-- `coh_step`: every action keeps coherence — creating, editing without committing, committing,
taking a merge result, removing, evicting, resolving, and closing + reopening *at any point*, with
operations still staged or not (the repaired `Close` drops the excerpt file in the first case). -/
theorem coh_step (s : St Op) (a : Act Op) (h : Coh s) : Coh (step s a) := by
  cases a with
  | new id ops =>
    exact coh_install s h id _ _ _ _ (by intro l0 hl0; cases hl0; simp [Loaded.all]) (by intro hc; cases hc)
      (by intro x hx hx'; exact hx (List.mem_cons_of_mem _ hx')) (by intro hc; exact absurd (List.mem_cons_self) hc)
  | merged id ops =>
    exact coh_install s h id _ _ _ _ (by intro l0 hl0; cases hl0; simp [Loaded.all]) (by intro hc; cases hc)
      (by intro x hx hx'; exact hx (List.mem_cons_of_mem _ hx')) (by intro hc; exact absurd (List.mem_cons_self) hc)
  | stage id op =>
    simp only [step]
    cases hl : s.loaded id with
    | none => exact h
    | some l =>
      refine coh_install s h id _ _ _ _ ?_ (by intro hc; cases hc) (fun _ hx => hx) ?_
      · intro l0 hl0; cases hl0
        exact ⟨(h.loaded id l hl).1, by simp [Loaded.all]⟩
      · intro hn; exact absurd (loaded_in_ids s h id l hl) hn
  | commit id =>
    simp only [step]
    cases hl : s.loaded id with
    | none => exact h
    | some l =>
      refine coh_install s h id _ _ _ _ ?_ (by intro hc; cases hc) (fun _ hx => hx) ?_
      · intro l0 hl0; cases hl0; simp [Loaded.all]
      · intro hn; exact absurd (loaded_in_ids s h id l hl) hn
  | remove id =>
    exact coh_install s h id _ _ _ _ (by intro l0 hl0; cases hl0) (fun _ => rfl) (fun _ hx => hx) (fun _ => rfl)
  | evict id =>
    simp only [step]
    cases hl : s.loaded id with
    | none => exact h
    | some l =>
      simp only
      split
      · rename_i he
        refine ⟨h.file, h.index, ?_, ?_, h.support⟩
        · intro x l0 hx
          by_cases hxi : x = id
          · subst hxi; simp [upd] at hx
          · simp only [upd, hxi, if_false] at hx; exact h.loaded x l0 hx
        · intro x hx
          by_cases hxi : x = id
          · subst hxi
            obtain ⟨h1, h2⟩ := h.loaded x l hl
            rw [h1, h2, Loaded.all, List.isEmpty_iff.mp he, List.append_nil]
          · simp only [upd, hxi, if_false] at hx; exact h.unloaded x hx
      · exact h
  | resolve id =>
    simp only [step]
    cases hl : s.loaded id with
    | some l => exact h
    | none =>
      refine ⟨h.file, h.index, ?_, ?_, ?_⟩
      · intro x l0 hx
        by_cases hxi : x = id
        · subst hxi
          simp only [upd, if_true] at hx
          cases hr : s.repo x with
          | none => simp [hr] at hx
          | some c =>
            simp only [hr, Option.map_some, Option.some.injEq] at hx
            subst hx
            exact ⟨rfl, by rw [h.unloaded x hl, hr]; simp [Loaded.all]⟩
        · simp only [upd, hxi, if_false] at hx; exact h.loaded x l0 hx
      · intro x hx
        by_cases hxi : x = id
        · subst hxi; exact h.unloaded x hl
        · simp only [upd, hxi, if_false] at hx; exact h.unloaded x hx
      · intro x hx
        exact h.support x (fun hx' => hx (List.mem_cons_of_mem _ hx'))
  | reopen =>
    simp only [step, close]
    cases hd : dirty s with
    | true => simp only [if_true, openFrom]; exact coh_rebuild _ _ h.support
    | false =>
      simp only [Bool.false_eq_true, if_false]
      exact coh_openFrom_file s h ((dirty_false_iff s h).mp hd)

theorem coh_run (s : St Op) (as : List (Act Op)) (h : Coh s) : Coh (as.foldl step s) := by
  induction as generalizing s with
  | nil => exact h
  | cons a t ih => exact ih _ (coh_step s a h)

/-- after closing and reopening nothing is staged (whatever was staged is lost) -/
theorem reopen_quiescent (s : St Op) : Quiescent (step s .reopen) := by
  simp only [step, openFrom]
  split
  · split
    · intro id l hl; cases hl
    · exact quiescent_rebuild _ _
  · exact quiescent_rebuild _ _

/-- **C11** on the finer model: at a quiescent point of a coherent cache, the listing, the index
content and every resolved entity are those of a cache rebuilt from the git data. -/
theorem served_eq_rebuild (s : St Op) (h : Coh s) (hq : Quiescent s) :
    (served s).excerpts = (served (rebuild s.repo s.ids : St Op)).excerpts ∧
    (served s).index = (served (rebuild s.repo s.ids : St Op)).index ∧
    (served s).resolved = (served (rebuild s.repo s.ids : St Op)).resolved := by
  have hex : s.excerpts = s.repo := by
    funext id
    cases hl : s.loaded id with
    | none => exact h.unloaded id hl
    | some l =>
      obtain ⟨h1, h2⟩ := h.loaded id l hl
      rw [h1, h2, Loaded.all, hq id l hl, List.append_nil]
  refine ⟨hex, by simp only [served, rebuild]; rw [h.index, hex], ?_⟩
  funext id
  simp only [served, rebuild]
  cases hl : s.loaded id with
  | none =>
    cases hr : s.repo id <;> simp [Loaded.all]
  | some l =>
    obtain ⟨h1, _⟩ := h.loaded id l hl
    simp [h1, Loaded.all, hq id l hl]

/-- every session: starting from a rebuilt cache, after any sequence of actions that ends at a
quiescent point — in particular after any close + reopen — the cache serves what a rebuild serves -/
theorem session_coherent (repo : Map (List Op)) (ids : List String) (hs : ∀ id, id ∉ ids → repo id = none)
    (as : List (Act Op)) (hq : Quiescent (as.foldl step (rebuild repo ids))) :
    let s := as.foldl step (rebuild repo ids)
    (served s).excerpts = s.repo ∧ (served s).index = s.repo ∧
    (served s).resolved = (served (rebuild s.repo s.ids : St Op)).resolved := by
  intro s
  have h := coh_run (rebuild repo ids) as (coh_rebuild repo ids hs)
  obtain ⟨h1, h2, h3⟩ := served_eq_rebuild s h hq
  exact ⟨h1, h2, h3⟩

/-- an edit is listed as soon as it is made, before it is committed -/
theorem stage_visible (s : St Op) (id : String) (l : Loaded Op) (op : Op) (hl : s.loaded id = some l) :
    (served (step s (.stage id op))).excerpts id = some (l.committed ++ (l.staged ++ [op])) ∧
    (served (step s (.stage id op))).resolved id = some (l.committed ++ (l.staged ++ [op])) := by
  simp [step, hl, install, publish, served, upd, Loaded.all]

/-- a commit stores everything that was staged, in order, and leaves nothing staged -/
theorem commit_stores (s : St Op) (id : String) (l : Loaded Op) (hl : s.loaded id = some l) :
    (step s (.commit id)).repo id = some (l.committed ++ l.staged) ∧
    (step s (.commit id)).loaded id = some ⟨l.committed ++ l.staged, []⟩ := by
  simp [step, hl, install, publish, upd, Loaded.all]

/-- later edits made through the cache build on the merged history -/
theorem edit_after_merge (s : St Op) (id : String) (ops : List Op) (op : Op) :
    (step (step (step s (.merged id ops)) (.stage id op)) (.commit id)).repo id = some (ops ++ [op]) := by
  simp [step, install, publish, upd, Loaded.all]

/-- The `Close` of the pinned tree kept the excerpt file whatever it described: an edit that was
never committed, then close and reopen, and the cache lists a title git does not hold while nothing
is staged any more (kernel-checked witness; the defect was found by the harness and repaired). -/
theorem pinned_close_incoherent :
    let s0 : St Nat := rebuild (fun id => if id = "b" then some [1] else none) ["b"]
    let s1 := stepPinned (stepPinned s0 (.stage "b" 2)) .reopen
    s1.excerpts "b" = some [1, 2] ∧ s1.repo "b" = some [1] ∧ s1.loaded "b" = none := by
  decide

/-- …while the repaired `Close` rebuilds -/
example :
    let s0 : St Nat := rebuild (fun id => if id = "b" then some [1] else none) ["b"]
    let s1 := step (step s0 (.stage "b" 2)) .reopen
    s1.excerpts "b" = some [1] ∧ s1.repo "b" = some [1] := by
  decide

/-! non-vacuity: a session with staged edits, a commit, a merge, an eviction and two reopens -/
example :
    let s := [Act.new "a" [1], .stage "a" 2, .stage "a" 3, .commit "a", .merged "b" [7], .stage "b" 8, .evict "b", .evict "a",
              .reopen, .resolve "a", .stage "a" 4, .reopen].foldl step (rebuild (fun _ => (none : Option (List Nat))) [])
    (s.excerpts "a", s.excerpts "b", s.repo "a", s.repo "b") = (some [1, 2, 3], some [7], some [1, 2, 3], some [7]) := by
  decide

end Staged
end GitBugModel.Props.C11

/-! C11, "evicting under memory pressure": what `evictIfNeeded` may drop. The coherence theorems
(Props/C11, `Staged.coh_step`) let an `evict` action drop an instance only when nothing is staged
on it; here the loop of `evictIfNeeded` itself is the model, and the theorems say that it keeps
that promise in every session, whatever the cache size: an instance with staged operations is
never dropped, so no edit is lost to eviction. -/
namespace GitBugModel.Props.C11.LruEvict
open GitBugModel.Lru

/-! ## the loop -/

theorem evictLoop_sublist (d : String → Bool) (n : Nat) (l : List String) :
    (evictLoop d n l).Sublist l := by
  induction l generalizing n with
  | nil => cases n <;> simp [evictLoop]
  | cons id rest ih =>
    cases n with
    | zero => simp [evictLoop]
    | succ n =>
      simp only [evictLoop]
      split
      · exact (ih (n + 1)).cons_cons id
      · exact (ih n).cons id

/-- an id with staged operations is never dropped -/
theorem evictLoop_keeps_dirty (d : String → Bool) (n : Nat) (l : List String) (id : String)
    (hin : id ∈ l) (hd : d id = true) : id ∈ evictLoop d n l := by
  induction l generalizing n with
  | nil => cases hin
  | cons x rest ih =>
    cases n with
    | zero => simpa [evictLoop] using hin
    | succ n =>
      simp only [evictLoop]
      rcases List.mem_cons.mp hin with rfl | hr
      · simp [hd]
      · split
        · exact List.mem_cons_of_mem _ (ih (n + 1) hr)
        · exact ih n hr

/-- whatever is dropped was loaded and had nothing staged -/
theorem evictLoop_dropped_clean (d : String → Bool) (n : Nat) (l : List String) (id : String)
    (hin : id ∈ l) (hout : id ∉ evictLoop d n l) : d id = false := by
  cases h : d id with
  | false => rfl
  | true => exact absurd (evictLoop_keeps_dirty d n l id hin h) hout

/-- the loop drops as many as asked for, or everything that is left has staged operations -/
theorem evictLoop_bound (d : String → Bool) (n : Nat) (l : List String) :
    (evictLoop d n l).length + n ≤ l.length ∨ ∀ id ∈ evictLoop d n l, d id = true := by
  induction l generalizing n with
  | nil => cases n <;> simp [evictLoop]
  | cons x rest ih =>
    cases n with
    | zero => left; simp [evictLoop]
    | succ n =>
      simp only [evictLoop]
      split
      · rename_i hx
        rcases ih (n + 1) with h | h
        · left; simp only [List.length_cons]; omega
        · right; intro id hid
          rcases List.mem_cons.mp hid with rfl | hr
          · exact hx
          · exact h id hr
      · rcases ih n with h | h
        · left; simp only [List.length_cons]; omega
        · right; exact h

/-- `evict_bound`: after `evictIfNeeded` at most `maxLoaded` instances are loaded, unless every
loaded instance holds staged operations -/
theorem evict_bound (max : Nat) (d : String → Bool) (l : List String) :
    (evictIfNeeded max d l).length ≤ max ∨ ∀ id ∈ evictIfNeeded max d l, d id = true := by
  rcases evictLoop_bound d (l.length - max) l with h | h
  · left; simp only [evictIfNeeded]; omega
  · right; exact h

theorem evict_noop (max : Nat) (d : String → Bool) (l : List String) (h : l.length ≤ max) :
    evictIfNeeded max d l = l := by
  simp only [evictIfNeeded, Nat.sub_eq_zero_of_le h]
  cases l <;> simp [evictLoop]

/-! ## sessions -/

/-- every instance with staged operations is loaded; every handle counted as current is loaded;
no id is listed twice -/
structure Inv (s : St) : Prop where
  dirty : ∀ id ∈ s.dirty, id ∈ s.lru
  held : ∀ id ∈ s.held, id ∈ s.lru
  nodup : s.lru.Nodup

theorem mem_add (l : List String) (x id : String) : x ∈ add l id ↔ x ∈ l ∨ x = id := by
  simp only [add, List.mem_append, List.mem_filter, List.mem_singleton, bne_iff_ne, ne_eq]
  constructor
  · rintro (⟨h, _⟩ | h)
    · exact Or.inl h
    · exact Or.inr h
  · rintro (h | h)
    · by_cases hx : x = id
      · exact Or.inr hx
      · exact Or.inl ⟨h, hx⟩
    · exact Or.inr h

theorem nodup_add (l : List String) (id : String) (h : l.Nodup) : (add l id).Nodup := by
  simp only [add]
  refine List.nodup_append.mpr ⟨h.filter _, by simp, ?_⟩
  intro a ha b hb
  simp only [List.mem_filter, bne_iff_ne, ne_eq] at ha
  simp only [List.mem_singleton] at hb
  subst hb
  exact ha.2

theorem mem_touch (l : List String) (x id : String) : x ∈ touch l id ↔ x ∈ l := by
  simp only [touch]
  split
  · rename_i h
    rw [mem_add]
    constructor
    · rintro (h' | rfl)
      · exact h'
      · exact h
    · exact Or.inl
  · exact Iff.rfl

theorem nodup_touch (l : List String) (id : String) (h : l.Nodup) : (touch l id).Nodup := by
  simp only [touch]; split
  · exact nodup_add l id h
  · exact h

theorem inv_settle_lru (s : St) (l : List String) (hn : l.Nodup) (hd : ∀ id ∈ s.dirty, id ∈ l) :
    Inv ({ s with lru := l }.settle) := by
  refine ⟨hd, ?_, hn⟩
  intro id hid
  simp only [St.settle, List.mem_filter, List.contains_eq_mem, decide_eq_true_eq] at hid
  exact hid.2

theorem inv_evict (s : St) (hn : s.lru.Nodup) (hd : ∀ id ∈ s.dirty, id ∈ s.lru) : Inv s.evict := by
  simp only [St.evict]
  refine inv_settle_lru s _ ((evictLoop_sublist _ _ _).nodup hn) ?_
  intro id hid
  exact evictLoop_keeps_dirty _ _ _ id (hd id hid) (by simpa [St.isDirty] using hid)

theorem inv_resolve (s : St) (id : String) (h : Inv s) : Inv (resolve s id).1 := by
  simp only [resolve]
  split
  · rename_i hin
    refine ⟨fun x hx => (mem_touch _ _ _).mpr (h.dirty x hx), ?_, nodup_touch _ _ h.nodup⟩
    intro x hx
    apply (mem_touch _ _ _).mpr
    dsimp only at hx
    split at hx
    · exact h.held x hx
    · rcases List.mem_cons.mp hx with rfl | hx
      · exact hin
      · exact h.held x hx
  · exact inv_evict _ (nodup_add _ _ h.nodup) (fun x hx => (mem_add _ _ _).mpr (Or.inl (h.dirty x hx)))

theorem resolve_true_loaded (s : St) (id : String) (h : (resolve s id).2 = true) : id ∈ (resolve s id).1.lru := by
  simp only [resolve] at h ⊢
  split
  · rename_i hin; exact (mem_touch _ _ _).mpr hin
  · rename_i hin; simp [hin] at h

theorem resolve_dirty (s : St) (id : String) : (resolve s id).1.dirty = s.dirty := by
  simp only [resolve]; split <;> rfl

theorem resolve_max (s : St) (id : String) : (resolve s id).1.max = s.max := by
  simp only [resolve]; split <;> rfl

theorem inv_step (s : St) (c : Call) (h : Inv s) : Inv (step s c).1 := by
  cases c with
  | resolve id => exact inv_resolve s id h
  | new id =>
    exact inv_evict _ (nodup_add _ _ h.nodup) (fun x hx => (mem_add _ _ _).mpr (Or.inl (h.dirty x hx)))
  | edit id =>
    simp only [step]
    have h2 := inv_resolve _ id (inv_resolve s id h)
    split
    · rename_i hb
      refine ⟨?_, fun x hx => (mem_touch _ _ _).mpr (h2.held x hx), nodup_touch _ _ h2.nodup⟩
      intro x hx
      apply (mem_touch _ _ _).mpr
      dsimp only at hx
      split at hx
      · exact h2.dirty x hx
      · rcases List.mem_cons.mp hx with rfl | hx
        · exact resolve_true_loaded _ _ hb
        · exact h2.dirty x hx
    · exact h2
  | commit id =>
    simp only [step]
    have h2 := inv_resolve _ id (inv_resolve s id h)
    split
    · refine ⟨?_, fun x hx => (mem_touch _ _ _).mpr (h2.held x hx), nodup_touch _ _ h2.nodup⟩
      intro x hx
      apply (mem_touch _ _ _).mpr
      exact h2.dirty x (List.mem_filter.mp hx).1
    · exact h2
  | setSize n => exact inv_evict _ h.nodup h.dirty
  | remove id =>
    simp only [step]
    have h1 := inv_resolve s id h
    refine ⟨?_, ?_, h1.nodup.filter _⟩
    · intro x hx
      simp only [St.settle, List.mem_filter, bne_iff_ne, ne_eq] at hx ⊢
      exact ⟨h1.dirty x hx.1, hx.2⟩
    · intro x hx
      simp only [St.settle, List.mem_filter, List.contains_eq_mem, decide_eq_true_eq, bne_iff_ne, ne_eq] at hx ⊢
      exact hx.2

theorem inv_init (m : Nat) : Inv (init m) := ⟨by simp [init], by simp [init], by simp [init]⟩

theorem inv_run (s : St) (cs : List Call) (h : Inv s) : Inv (run s cs).1 := by
  induction cs generalizing s with
  | nil => exact h
  | cons c cs ih => simp only [run]; exact ih _ (inv_step s c h)

/-- `staged_never_evicted`: in every session — any calls, any cache sizes, set at any point — an
instance that holds staged operations is loaded: eviction never drops an edit. -/
theorem staged_never_evicted (m : Nat) (cs : List Call) (id : String)
    (h : id ∈ (run (init m) cs).1.dirty) : id ∈ (run (init m) cs).1.lru :=
  (inv_run _ cs (inv_init m)).dirty id h

/-- staged operations leave an instance through its commit or its removal only -/
theorem dirty_until_commit (s : St) (c : Call) (id : String) (h : id ∈ s.dirty) :
    id ∈ (step s c).1.dirty ∨ c = .commit id ∨ c = .remove id := by
  cases c with
  | resolve x => left; simp only [step]; rw [resolve_dirty]; exact h
  | new x => left; simpa [step, St.evict, St.settle] using h
  | edit x =>
    left; simp only [step]
    split
    · dsimp only; split
      · rw [resolve_dirty, resolve_dirty]; exact h
      · apply List.mem_cons_of_mem; rw [resolve_dirty, resolve_dirty]; exact h
    · rw [resolve_dirty, resolve_dirty]; exact h
  | commit x =>
    by_cases hx : x = id
    · right; left; rw [hx]
    · left; simp only [step]
      split
      · simp only [List.mem_filter, bne_iff_ne, ne_eq]
        rw [resolve_dirty, resolve_dirty]; exact ⟨h, fun e => hx e.symm⟩
      · rw [resolve_dirty, resolve_dirty]; exact h
  | setSize n => left; simpa [step, St.evict, St.settle] using h
  | remove x =>
    by_cases hx : x = id
    · right; right; rw [hx]
    · left; simp only [step, St.settle, List.mem_filter, bne_iff_ne, ne_eq]
      rw [resolve_dirty]; exact ⟨h, fun e => hx e.symm⟩

/-! non-vacuity: a session under pressure — size 2, three bugs, an edit left staged on the oldest:
the clean ones go, the edited one stays -/
example : (run (init 2) [.new "a", .edit "a", .new "b", .new "c", .resolve "a"]).1.lru = ["c", "a"] := by decide
example : (run (init 2) [.new "a", .edit "a", .new "b", .new "c", .resolve "b"]).2.getLast? = some ⟨[false], true⟩ := by decide

/-- the pinned tree made room before it wrote the excerpt of a new bug: when every loaded instance
holds staged operations (or the size is 0) the new instance is the one that goes, and `New` fails
after the bug was stored (found by the correspondence run, repaired in /repo) -/
theorem pinned_new_fails_under_pressure :
    (newPinned (run (init 1) [.new "a", .edit "a"]).1 "b").2.ok = false ∧ (newPinned (init 0) "b").2.ok = false := by decide

/-! ## the tie to the source (regenerated on every check)

`GitBugModel.Lru.evictLoop` transcribes the loop of `evictIfNeeded`, `step` the order in which `add`,
`Resolve` and `SetCacheSize` touch the list, announce the entity and evict. The translator reads
exactly those statements from `cache/subcache.go`; any other shape breaks these obligations. -/

/-- the loop: oldest first; an instance that needs a commit is skipped before anything is dropped;
dropping removes the key and the instance; the loop stops as soon as the size fits -/
theorem gen_evict_loop :
    GitBugModel.Gen.Evict.early = "if sc.lru.Len() <= sc.maxLoaded { return }" ∧
    GitBugModel.Gen.Evict.loop =
      ["range:sc.lru.GetOldestToNewest()", "b := sc.cached[id]", "if b.NeedCommit() { continue }", "b.Lock()",
       "sc.lru.Remove(id)", "delete(sc.cached, id)", "if sc.lru.Len() <= sc.maxLoaded { return }"] := by
  decide

/-- `add` announces the new entity (its excerpt is written) before it makes room; `Resolve` evicts
after the instance is in the list; `SetCacheSize` evicts with the new size; a notification moves the
key and rewrites the excerpt, it never loads or drops anything -/
theorem gen_evict_order :
    GitBugModel.Gen.Evict.orderAdd = ["set:cached", "Add", "entityUpdated", "evictIfNeeded"] ∧
    GitBugModel.Gen.Evict.orderResolve = ["Get", "Get", "set:cached", "Add", "evictIfNeeded"] ∧
    GitBugModel.Gen.Evict.orderSetCacheSize = ["set:maxLoaded", "evictIfNeeded"] ∧
    GitBugModel.Gen.Evict.orderEntityUpdated = ["Get", "makeExcerpt"] := by
  decide

end GitBugModel.Props.C11.LruEvict

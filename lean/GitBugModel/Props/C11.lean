import GitBugModel.Model.Cache
/-!
# C11 — the cache always agrees with a cache rebuilt from the git data
-/
namespace GitBugModel.Props.C11
open GitBugModel.Cache

variable {E : Type}

/-- Coherence: excerpts and index are exactly what git holds, and every loaded instance is the
entity its ref reads as. -/
structure Coh (s : St E) : Prop where
  excerpts : s.excerpts = s.repo
  index : s.index = s.repo
  loaded : ∀ id e, s.loaded id = some e → s.repo id = some e

theorem coh_rebuild (repo : Map E) (ids : List String) : Coh (rebuild repo ids) :=
  ⟨rfl, rfl, fun _ _ h => h⟩

theorem upd_same (m : Map E) (k : String) (v : Option E) : upd m k v k = v := by simp [upd]

/-- `coh_step`: every action — creating, committing an edit, taking a merge result, removing,
evicting, resolving, closing and reopening — preserves coherence. -/
theorem coh_step (s : St E) (a : Act E) (h : Coh s) : Coh (step s a) := by
  obtain ⟨he, hi, hl⟩ := h
  cases a with
  | new id e =>
    refine ⟨by simp [step, he], by simp [step, hi], ?_⟩
    intro x e' hx
    simp only [step, upd] at hx ⊢
    split at hx <;> simp_all
  | commit id e =>
    refine ⟨by simp [step, he], by simp [step, hi], ?_⟩
    intro x e' hx
    simp only [step, upd] at hx ⊢
    split at hx <;> simp_all
  | merged id e =>
    refine ⟨by simp [step, he], by simp [step, hi], ?_⟩
    intro x e' hx
    simp only [step, upd] at hx ⊢
    split at hx <;> simp_all
  | mergedNothing => exact ⟨he, hi, hl⟩
  | remove id =>
    refine ⟨by simp [step, he], by simp [step, hi], ?_⟩
    intro x e' hx
    simp only [step, upd] at hx ⊢
    split at hx <;> simp_all
  | evict id =>
    refine ⟨he, hi, ?_⟩
    intro x e' hx
    simp only [step, upd] at hx ⊢
    split at hx
    · cases hx
    · exact hl x e' hx
  | resolve id =>
    refine ⟨he, hi, ?_⟩
    intro x e' hx
    simp only [step, upd] at hx ⊢
    split at hx
    · rename_i hxi; subst hxi; exact hx
    · exact hl x e' hx
  | reopen =>
    simp only [step]
    split
    · exact ⟨he, hi, fun _ _ hx => by cases hx⟩
    · exact coh_rebuild _ _

theorem coh_run (s : St E) (as : List (Act E)) (h : Coh s) : Coh (as.foldl step s) := by
  induction as generalizing s with
  | nil => exact h
  | cons a t ih => exact ih _ (coh_step s a h)

/-- `served_eq_rebuild`: in a coherent state the cache serves exactly what a cache rebuilt from the
git data serves. -/
theorem served_eq_rebuild (s : St E) (h : Coh s) :
    (served s).excerpts = (served (rebuild s.repo s.ids)).excerpts ∧
    (served s).index = (served (rebuild s.repo s.ids)).index ∧
    (served s).resolved = (served (rebuild s.repo s.ids)).resolved := by
  refine ⟨h.excerpts, h.index, ?_⟩
  funext id
  simp only [served, rebuild]
  cases hl : s.loaded id with
  | none => cases s.repo id <;> rfl
  | some e => rw [h.loaded id e hl]

/-- C11 for every session: starting from a rebuilt cache, after any sequence of actions the cache
serves what a rebuild would. -/
theorem session_coherent (repo : Map E) (ids : List String) (as : List (Act E)) :
    let s := as.foldl step (rebuild repo ids)
    (served s).excerpts = s.repo ∧ (served s).index = s.repo ∧
    (served s).resolved = (served (rebuild s.repo s.ids)).resolved := by
  have h := coh_run (rebuild repo ids) as (coh_rebuild repo ids)
  exact ⟨h.excerpts, h.index, (served_eq_rebuild _ h).2.2⟩

/-- `pull_visible`: a merge result makes the entity visible in excerpts, index and resolution -/
theorem pull_visible (s : St E) (id : String) (e : E) :
    (served (step s (.merged id e))).excerpts id = some e ∧ (served (step s (.merged id e))).index id = some e ∧
    (served (step s (.merged id e))).resolved id = some e := by
  simp [served, step, upd]

/-- `edit_after_merge`: the instance kept after a merge is the merged entity, so an edit through
the cache builds on it -/
theorem loaded_after_merge (s : St E) (id : String) (e : E) : (step s (.merged id e)).loaded id = some e := by
  simp [step, upd]

/-- removal: gone from everything, nothing else touched -/
theorem remove_spec (s : St E) (id other : String) (hne : other ≠ id) :
    (step s (.remove id)).excerpts id = none ∧ (step s (.remove id)).index id = none ∧ (step s (.remove id)).repo id = none ∧
    (step s (.remove id)).excerpts other = s.excerpts other ∧ (step s (.remove id)).index other = s.index other := by
  simp [step, upd, hne]

/-- The pinned tree's interception of merge results (no index update) is *not* coherence
preserving: a concrete session in which a pulled entity is not in the index. -/
theorem merged_without_index_incoherent :
    let s0 : St Nat := rebuild (fun _ => none) []
    let s1 := stepMergedNoIndex s0 "b" 7
    s1.index "b" = none ∧ s1.repo "b" = some 7 := by
  simp [stepMergedNoIndex, rebuild, upd]

/-! ## non-vacuity -/

example : let s := [Act.new "a" 1, .merged "b" 2, .commit "a" 3, .evict "a", .reopen, .resolve "b", .remove "a"].foldl step (rebuild (fun _ => (none : Option Nat)) [])
    (s.excerpts "a", s.excerpts "b", s.index "b", s.loaded "b", s.repo "a") = (none, some 2, some 2, some 2, none) := by
  decide

end GitBugModel.Props.C11

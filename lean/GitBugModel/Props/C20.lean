import GitBugModel.Model.Conn
import GitBugModel.Gen.Conn
import GitBugModel.Lemmas.Cursor
/-!
# C20 — API pagination visits every element exactly once, in order

Theorems about `GitBugModel.Conn.paginate`, the model of `connections.NameCon`.
All statements quantify over every source list, every page size and every cursor encoder
`enc` (injective where stated); there is no bound on the list length.
-/
namespace GitBugModel.Props.C20
open GitBugModel.Conn

/-! ## helper lemmas about the cursor scan -/

theorem findCursor_some {enc : Nat → String} {c : String} :
    ∀ {n base j}, findCursor enc c n base = some j →
      base ≤ j ∧ j < base + n ∧ enc j = c ∧ ∀ i, base ≤ i → i < j → enc i ≠ c := by
  intro n
  induction n with
  | zero => intro base j h; simp [findCursor] at h
  | succ n ih =>
    intro base j h
    unfold findCursor at h
    split at h
    · rename_i heq
      cases h
      refine ⟨Nat.le_refl _, by omega, heq, ?_⟩
      intro i h1 h2; omega
    · rename_i hne
      obtain ⟨h1, h2, h3, h4⟩ := ih h
      refine ⟨by omega, by omega, h3, ?_⟩
      intro i hi1 hi2
      by_cases hib : i = base
      · subst hib; exact hne
      · exact h4 i (by omega) hi2

theorem findCursor_none {enc : Nat → String} {c : String} :
    ∀ {n base}, findCursor enc c n base = none → ∀ i, base ≤ i → i < base + n → enc i ≠ c := by
  intro n
  induction n with
  | zero => intro base _ i h1 h2; omega
  | succ n ih =>
    intro base h i h1 h2
    unfold findCursor at h
    split at h
    · cases h
    · rename_i hne
      by_cases hib : i = base
      · subst hib; exact hne
      · exact ih h i (by omega) (by omega)

theorem findCursor_inj {enc : Nat → String} (hinj : Function.Injective enc) :
    ∀ {n base i}, base ≤ i → i < base + n → findCursor enc (enc i) n base = some i := by
  intro n base i h1 h2
  cases h : findCursor enc (enc i) n base with
  | none => exact absurd rfl (findCursor_none h i h1 h2)
  | some j =>
    obtain ⟨_, _, h3, _⟩ := findCursor_some h
    rw [hinj h3]

/-! ## the window is always inside the list; no element outside the requested window -/

theorem afterCut_le (enc : Nat → String) (n : Nat) (a : Option String) :
    (afterCut enc n a).1 ≤ n := by
  unfold afterCut
  split
  · simp
  · split
    · rename_i h; have := findCursor_some h; simp; omega
    · simp

theorem beforeCut_le (enc : Nat → String) (m off : Nat) (b : Option String) :
    (beforeCut enc m off b).1 ≤ m := by
  unfold beforeCut
  split
  · simp
  · split
    · rename_i h; have := findCursor_some h; simp; omega
    · simp

theorem firstCut_ok {first : Option Int} {len : Nat} {hn : Bool} {r : Nat × Bool}
    (h : firstCut first len hn = .ok r) : r.1 ≤ len := by
  unfold firstCut at h
  split at h
  · cases h; simp
  · split at h
    · cases h
    · split at h <;> (cases h; simp; try omega)

theorem lastCut_ok {last : Option Int} {lo len : Nat} {hp : Bool} {r : Nat × Nat × Bool}
    (h : lastCut last lo len hp = .ok r) : lo ≤ r.1 ∧ r.1 + r.2.1 = lo + len := by
  unfold lastCut at h
  split at h
  · cases h; simp
  · split at h
    · cases h
    · split at h <;> (cases h; simp; try omega)

/-- `page_window`: the page is a contiguous window `[lo, lo+len)` of the source that lies
inside the source, and inside what `after`/`before` leave. -/
theorem window_bounds {enc : Nat → String} {n : Nat} {inp : Input} {lo len : Nat} {hn hp : Bool}
    (h : window enc n inp = .ok (lo, len, hn, hp)) :
    (afterCut enc n inp.after).1 ≤ lo ∧
    lo + len ≤ (afterCut enc n inp.after).1 +
      (beforeCut enc (n - (afterCut enc n inp.after).1) (afterCut enc n inp.after).1 inp.before).1 ∧
    lo + len ≤ n := by
  have ha := afterCut_le enc n inp.after
  have hb := beforeCut_le enc (n - (afterCut enc n inp.after).1) (afterCut enc n inp.after).1 inp.before
  unfold window at h
  simp only at h
  split at h
  · cases h
  · rename_i fc hfc
    split at h
    · cases h
    · rename_i lc hlc
      have h1 := firstCut_ok hfc
      have h2 := lastCut_ok hlc
      cases h
      omega

theorem paginate_ok {α} {enc : Nat → String} {src : List α} {inp : Input} {p : Page α}
    (h : paginate enc src inp = .ok p) :
    ∃ lo len hn hp, window enc src.length inp = .ok (lo, len, hn, hp) ∧
      p = mkPage enc src lo len hn hp := by
  unfold paginate at h
  split at h
  · cases h
  · rename_i w hw
    obtain ⟨lo, len, hn, hp⟩ := w
    cases h
    exact ⟨lo, len, hn, hp, hw, rfl⟩

theorem page_window {α} {enc : Nat → String} {src : List α} {inp : Input} {p : Page α}
    (h : paginate enc src inp = .ok p) :
    ∃ lo len, lo + len ≤ src.length ∧ p.nodes = (src.drop lo).take len ∧
      p.nodes.length = len ∧ p.cursors = (List.range len).map (fun i => enc (lo + i)) := by
  obtain ⟨lo, len, hn, hp, hw, rfl⟩ := paginate_ok h
  have := (window_bounds hw).2.2
  refine ⟨lo, len, this, rfl, ?_, rfl⟩
  simp only [mkPage, List.length_take, List.length_drop]
  omega

/-- No element outside the requested window: every returned node sits at a source position
after the `after` cursor and before the `before` cursor. -/
theorem page_inside_cursors {α} {enc : Nat → String} {src : List α} {inp : Input} {p : Page α}
    (h : paginate enc src inp = .ok p) :
    ∃ lo len, p.nodes = (src.drop lo).take len ∧
      (afterCut enc src.length inp.after).1 ≤ lo ∧
      lo + len ≤ (afterCut enc src.length inp.after).1 +
        (beforeCut enc (src.length - (afterCut enc src.length inp.after).1)
          (afterCut enc src.length inp.after).1 inp.before).1 := by
  obtain ⟨lo, len, hn, hp, hw, rfl⟩ := paginate_ok h
  have := window_bounds hw
  exact ⟨lo, len, rfl, this.1, this.2.1⟩

theorem total_is_length {α} {enc : Nat → String} {src : List α} {inp : Input} {p : Page α}
    (h : paginate enc src inp = .ok p) : p.total = src.length := by
  obtain ⟨lo, len, hn, hp, hw, rfl⟩ := paginate_ok h
  rfl

/-- `cursors_are_ends`: the start and end cursors are the cursors of the first and last
returned edge, and there is one cursor per node. -/
theorem cursors_are_ends {α} {enc : Nat → String} {src : List α} {inp : Input} {p : Page α}
    (h : paginate enc src inp = .ok p) :
    p.cursors.length = p.nodes.length ∧
    (p.cursors ≠ [] → p.cursors.head? = some p.startCursor ∧ p.cursors.getLast? = some p.endCursor) := by
  obtain ⟨lo, len, hn, hp, hw, rfl⟩ := paginate_ok h
  have := (window_bounds hw).2.2
  constructor
  · simp only [mkPage, List.length_take, List.length_drop, List.length_map, List.length_range]
    omega
  · intro hne
    simp only [mkPage] at hne ⊢
    constructor
    · cases hh : (List.map (fun i => enc (lo + i)) (List.range len)).head? with
      | none => rw [List.head?_eq_none_iff] at hh; exact absurd hh hne
      | some x => rfl
    · cases hh : (List.map (fun i => enc (lo + i)) (List.range len)).getLast? with
      | none => rw [List.getLast?_eq_none_iff] at hh; exact absurd hh hne
      | some x => rfl

/-! ## bad input: negative sizes are rejected, unknown cursors ignored; the function is total -/

theorem negative_first_rejected {α} (enc : Nat → String) (src : List α) (inp : Input) (f : Int)
    (hf : inp.first = some f) (hneg : f < 0) : paginate enc src inp = .error .firstNegative := by
  unfold paginate window firstCut
  simp [hf, hneg]

theorem negative_last_rejected {α} (enc : Nat → String) (src : List α) (inp : Input) (l : Int)
    (hl : inp.last = some l) (hneg : l < 0) (hf : ∀ f, inp.first = some f → 0 ≤ f) :
    paginate enc src inp = .error .lastNegative := by
  unfold paginate window
  simp only
  cases hfc : firstCut inp.first _ _ with
  | error e =>
    unfold firstCut at hfc
    split at hfc
    · cases hfc
    · rename_i f hfirst
      have := hf f hfirst
      split at hfc
      · omega
      · split at hfc <;> cases hfc
  | ok fc =>
    simp only [lastCut, hl, hneg, if_true]

/-- A cursor that is the cursor of no offset in range is ignored (same result as no cursor). -/
theorem foreign_after_ignored {α} (enc : Nat → String) (src : List α) (inp : Input) (c : String)
    (hc : ∀ i, i < src.length → enc i ≠ c) :
    paginate enc src { inp with after := some c } = paginate enc src { inp with after := none } := by
  have : afterCut enc src.length (some c) = afterCut enc src.length none := by
    unfold afterCut
    cases h : findCursor enc c src.length 0 with
    | none => simp only [h]
    | some j =>
      obtain ⟨_, h2, h3, _⟩ := findCursor_some h
      exact absurd h3 (hc j (by omega))
  unfold paginate window
  simp only [this]

theorem foreign_before_ignored {α} (enc : Nat → String) (src : List α) (inp : Input) (c : String)
    (hc : ∀ i, i < src.length → enc i ≠ c) :
    paginate enc src { inp with before := some c } = paginate enc src { inp with before := none } := by
  have : ∀ m off, off + m ≤ src.length → beforeCut enc m off (some c) = beforeCut enc m off none := by
    intro m off hle
    unfold beforeCut
    cases h : findCursor enc c m off with
    | none => simp only [h]
    | some j =>
      obtain ⟨_, h2, h3, _⟩ := findCursor_some h
      exact absurd h3 (hc j (by omega))
  have hle := afterCut_le enc src.length inp.after
  unfold paginate window
  simp only
  rw [this _ _ (by omega)]

/-! ## forward walk -/

/-- The cursor a client holds after having consumed `o` elements. -/
def cursorAt (enc : Nat → String) (o : Nat) : Option String :=
  if o = 0 then none else some (enc (o - 1))

theorem afterCut_cursorAt {enc : Nat → String} (hinj : Function.Injective enc) {n o : Nat}
    (ho : o ≤ n) : afterCut enc n (cursorAt enc o) = (o, decide (o ≠ 0)) := by
  unfold cursorAt afterCut
  by_cases h0 : o = 0
  · simp [h0]
  · simp only [h0, if_false]
    rw [findCursor_inj hinj (Nat.zero_le _) (by omega)]
    simp; omega

theorem firstCut_nat (k len : Nat) (hn : Bool) :
    firstCut (some (k : Int)) len hn = .ok (min len k, hn || decide (len > k)) := by
  unfold firstCut
  have hk : ¬ ((k : Int) < 0) := by omega
  simp only [hk, if_false, Int.toNat_natCast]
  by_cases h : len > k
  · simp [h]; omega
  · simp [h]; omega

theorem lastCut_nat (k lo len : Nat) (hp : Bool) :
    lastCut (some (k : Int)) lo len hp = .ok (lo + (len - k), min len k, hp || decide (len > k)) := by
  unfold lastCut
  have hk : ¬ ((k : Int) < 0) := by omega
  simp only [hk, if_false, Int.toNat_natCast]
  by_cases h : len > k
  · simp [h]; omega
  · simp [h]; omega

theorem window_forward {enc : Nat → String} (hinj : Function.Injective enc) {n o : Nat} (k : Nat)
    (ho : o ≤ n) :
    window enc n { after := cursorAt enc o, first := some (k : Int) }
      = .ok (o, min (n - o) k, decide (n - o > k), decide (o ≠ 0)) := by
  unfold window
  simp only [afterCut_cursorAt hinj ho, beforeCut, firstCut_nat, lastCut]
  simp

theorem range_map_getLast (f : Nat → String) (len : Nat) (h : 0 < len) :
    ((List.range len).map f).getLast? = some (f (len - 1)) := by
  rw [List.getLast?_eq_getElem?]
  simp only [List.length_map, List.length_range, List.getElem?_map]
  rw [List.getElem?_range (by omega)]
  rfl

theorem range_map_head (f : Nat → String) (len : Nat) (h : 0 < len) :
    ((List.range len).map f).head? = some (f 0) := by
  cases len with
  | zero => omega
  | succ n => simp [List.range_succ_eq_map]

/-- One forward page from offset `o` with size `k`. -/
theorem forward_page {α} {enc : Nat → String} (hinj : Function.Injective enc) (src : List α)
    {o k : Nat} (ho : o ≤ src.length) :
    ∃ p, paginate enc src { after := cursorAt enc o, first := some (k : Int) } = .ok p ∧
      p.nodes = (src.drop o).take k ∧
      p.hasNext = decide (src.length - o > k) ∧
      (0 < k → src.length - o > k → p.endCursor = enc (o + k - 1)) := by
  unfold paginate
  rw [window_forward hinj k ho]
  refine ⟨_, rfl, ?_, rfl, ?_⟩
  · simp only [mkPage]
    apply List.ext_getElem?
    intro i
    simp only [List.getElem?_take, List.getElem?_drop]
    by_cases h1 : i < k
    · by_cases h2 : i < src.length - o
      · have : i < min (src.length - o) k := by omega
        simp [h1, this]
      · have : ¬ i < min (src.length - o) k := by omega
        simp [h1, this]
        omega
    · have : ¬ i < min (src.length - o) k := by omega
      simp [h1, this]
  · intro hk hgt
    simp only [mkPage]
    rw [range_map_getLast _ _ (by omega)]
    simp
    congr 1
    omega

/-- `walk_forward`: for every page size `k ≥ 1` the concatenation of the pages of a forward
walk is exactly the source list — every element once, in order — and the walk needs at most
`n - o + 1` requests from offset `o`. -/
theorem walk_forward_from {α} {enc : Nat → String} (hinj : Function.Injective enc) (src : List α)
    {k : Nat} (hk : 0 < k) :
    ∀ (d o : Nat), o ≤ src.length → src.length - o ≤ d →
      ∀ fuel, d + 1 ≤ fuel → walkForward enc src k fuel (cursorAt enc o) = some (src.drop o) := by
  intro d
  induction d with
  | zero =>
    intro o ho hd fuel hfuel
    obtain ⟨p, hp, hnodes, hnext, _⟩ := forward_page hinj src (k := k) ho
    cases fuel with
    | zero => omega
    | succ fuel =>
      unfold walkForward
      rw [hp]
      have : p.hasNext = false := by rw [hnext]; simp; omega
      simp only [this]
      have : src.drop o = [] := by simp; omega
      simp [hnodes, this]
  | succ d ih =>
    intro o ho hd fuel hfuel
    obtain ⟨p, hp, hnodes, hnext, hend⟩ := forward_page hinj src (k := k) ho
    cases fuel with
    | zero => omega
    | succ fuel =>
      unfold walkForward
      rw [hp]
      by_cases hgt : src.length - o > k
      · have hn : p.hasNext = true := by rw [hnext]; simp; omega
        simp only [hn, if_true]
        have hcur : some p.endCursor = cursorAt enc (o + k) := by
          rw [hend hk hgt]; unfold cursorAt
          have : o + k ≠ 0 := by omega
          rw [if_neg this]
        rw [hcur, ih (o + k) (by omega) (by omega) fuel (by omega)]
        simp only [hnodes]
        have : src.drop (o + k) = (src.drop o).drop k := by rw [List.drop_drop]
        rw [this, List.take_append_drop]
      · have hn : p.hasNext = false := by rw [hnext]; simp; omega
        simp only [hn]
        simp [hnodes]
        rw [List.take_of_length_le]
        simp; omega

theorem walk_forward {α} {enc : Nat → String} (hinj : Function.Injective enc) (src : List α)
    {k : Nat} (hk : 0 < k) :
    walkForward enc src k (src.length + 1) none = some src := by
  have := walk_forward_from hinj src hk src.length 0 (Nat.zero_le _) (by omega) (src.length + 1) (by omega)
  simpa [cursorAt] using this

/-- `flags_truthful` (forward): `hasNextPage` is true exactly when elements remain after the page. -/
theorem hasNext_truthful {α} {enc : Nat → String} (hinj : Function.Injective enc) (src : List α)
    {o k : Nat} (ho : o ≤ src.length) {p : Page α}
    (h : paginate enc src { after := cursorAt enc o, first := some (k : Int) } = .ok p) :
    p.hasNext = true ↔ o + p.nodes.length < src.length := by
  obtain ⟨p', hp', hnodes, hnext, _⟩ := forward_page hinj src (k := k) ho
  rw [hp'] at h; cases h
  rw [hnext, hnodes]
  simp
  omega

/-! ## backward walk -/

/-- The `before` cursor a backward client holds when `b` elements remain in front of it
(`b = n` initially: no cursor). -/
def cursorBefore (enc : Nat → String) (n b : Nat) : Option String :=
  if b = n then none else some (enc b)

theorem beforeCut_cursorBefore {enc : Nat → String} (hinj : Function.Injective enc) {n b : Nat}
    (hb : b ≤ n) : beforeCut enc n 0 (cursorBefore enc n b) = (b, decide (b ≠ n)) := by
  unfold cursorBefore beforeCut
  by_cases h0 : b = n
  · simp [h0]
  · simp only [h0, if_false]
    rw [findCursor_inj hinj (Nat.zero_le _) (by omega)]
    simp [h0]

theorem window_backward {enc : Nat → String} (hinj : Function.Injective enc) {n b : Nat} (k : Nat)
    (hb : b ≤ n) :
    window enc n { before := cursorBefore enc n b, last := some (k : Int) }
      = .ok (b - k, min b k, decide (b ≠ n), decide (b > k)) := by
  unfold window
  simp only [afterCut, Nat.sub_zero, beforeCut_cursorBefore hinj hb, firstCut, lastCut_nat]
  simp

theorem backward_page {α} {enc : Nat → String} (hinj : Function.Injective enc) (src : List α)
    {b k : Nat} (hb : b ≤ src.length) :
    ∃ p, paginate enc src { before := cursorBefore enc src.length b, last := some (k : Int) } = .ok p ∧
      p.nodes = (src.take b).drop (b - k) ∧
      p.hasPrev = decide (b > k) ∧
      (0 < k → b > k → p.startCursor = enc (b - k)) := by
  unfold paginate
  rw [window_backward hinj k hb]
  refine ⟨_, rfl, ?_, rfl, ?_⟩
  · simp only [mkPage]
    apply List.ext_getElem?
    intro i
    simp only [List.getElem?_take, List.getElem?_drop]
    by_cases h1 : i < min b k
    · have : b - k + i < b := by omega
      simp [h1, this]
    · have : ¬ (b - k + i < b) := by omega
      simp [h1, this]
  · intro hk hgt
    simp only [mkPage]
    rw [range_map_head _ _ (by omega)]
    simp

/-- `walk_backward`: for every `k ≥ 1` the pages of a backward walk, put in front of one
another, are exactly the source list. -/
theorem walk_backward_from {α} {enc : Nat → String} (hinj : Function.Injective enc) (src : List α)
    {k : Nat} (hk : 0 < k) :
    ∀ (d b : Nat), b ≤ src.length → b ≤ d →
      ∀ fuel, d + 1 ≤ fuel →
        walkBackward enc src k fuel (cursorBefore enc src.length b) = some (src.take b) := by
  intro d
  induction d with
  | zero =>
    intro b hb hd fuel hfuel
    obtain ⟨p, hp, hnodes, hprev, _⟩ := backward_page hinj src (k := k) hb
    cases fuel with
    | zero => omega
    | succ fuel =>
      unfold walkBackward
      rw [hp]
      have : p.hasPrev = false := by rw [hprev]; simp; omega
      simp only [this]
      have hb0 : b = 0 := by omega
      simp [hnodes, hb0]
  | succ d ih =>
    intro b hb hd fuel hfuel
    obtain ⟨p, hp, hnodes, hprev, hstart⟩ := backward_page hinj src (k := k) hb
    cases fuel with
    | zero => omega
    | succ fuel =>
      unfold walkBackward
      rw [hp]
      by_cases hgt : b > k
      · have hn : p.hasPrev = true := by rw [hprev]; simp; omega
        simp only [hn, if_true]
        have hcur : some p.startCursor = cursorBefore enc src.length (b - k) := by
          rw [hstart hk hgt]; unfold cursorBefore
          have : b - k ≠ src.length := by omega
          simp [this]
        rw [hcur, ih (b - k) (by omega) (by omega) fuel (by omega)]
        simp only [hnodes]
        congr 1
        have h1 : src.take (b - k) = (src.take b).take (b - k) := by
          rw [List.take_take]; congr 1; omega
        rw [h1, List.take_append_drop]
      · have hn : p.hasPrev = false := by rw [hprev]; simp; omega
        simp only [hn]
        have : b - k = 0 := by omega
        simp [hnodes, this]

theorem walk_backward {α} {enc : Nat → String} (hinj : Function.Injective enc) (src : List α)
    {k : Nat} (hk : 0 < k) :
    walkBackward enc src k (src.length + 1) none = some src := by
  have := walk_backward_from hinj src hk src.length src.length (Nat.le_refl _) (Nat.le_refl _)
    (src.length + 1) (by omega)
  simpa [cursorBefore] using this

/-- `flags_truthful` (backward): `hasPreviousPage` is true exactly when elements remain before the page. -/
theorem hasPrev_truthful {α} {enc : Nat → String} (hinj : Function.Injective enc) (src : List α)
    {b k : Nat} (hb : b ≤ src.length) {p : Page α}
    (h : paginate enc src { before := cursorBefore enc src.length b, last := some (k : Int) } = .ok p) :
    p.hasPrev = true ↔ p.nodes.length < b := by
  obtain ⟨p', hp', hnodes, hprev, _⟩ := backward_page hinj src (k := k) hb
  rw [hp'] at h; cases h
  rw [hprev, hnodes]
  simp
  omega

/-- A page size of zero never advances: the walk is not productive (the hypothesis `0 < k`
of `walk_forward` is necessary).  Concrete witness, checked by evaluation. -/
theorem walk_forward_zero_stalls :
    walkForward (fun i => toString i) [1, 2, 3] 0 5 none = none := by decide


/-! ## the encoder of the source: `OffsetToCursor` = base64("cursor:" ++ decimal offset) -/

/-- `goEnc_injective`: the cursor the resolvers give to offset `i` (`connections.OffsetToCursor`,
modelled in `Model/Cursor.lean`: decimal rendering, prefix, standard base-64 with padding) is
different for different offsets.  This discharges the injectivity hypothesis of the walk and
flag theorems for the encoder actually used. -/
theorem goEnc_injective : Function.Injective GitBugModel.Cursor.offsetToCursor :=
  GitBugModel.Cursor.offsetToCursor_injective

/-- forward walk with the source's own cursor encoder: no hypothesis left but a positive page size -/
theorem walk_forward_go {α} (src : List α) {k : Nat} (hk : 0 < k) :
    walkForward GitBugModel.Cursor.offsetToCursor src k (src.length + 1) none = some src :=
  walk_forward goEnc_injective src hk

theorem walk_backward_go {α} (src : List α) {k : Nat} (hk : 0 < k) :
    walkBackward GitBugModel.Cursor.offsetToCursor src k (src.length + 1) none = some src :=
  walk_backward goEnc_injective src hk

example : GitBugModel.Cursor.offsetToCursor 0 = "Y3Vyc29yOjA=" := by decide
example : GitBugModel.Cursor.offsetToCursor 12 = "Y3Vyc29yOjEy" := by decide
example : GitBugModel.Cursor.offsetToCursor 123 = "Y3Vyc29yOjEyMw==" := by decide

/-! ## regenerated obligation: every genny instance in the source is the template the model transcribes -/

theorem gen_instances_are_template :
    GitBugModel.Gen.Conn.instances.all (fun i => i.2.2) = true ∧ GitBugModel.Gen.Conn.instances ≠ [] := by
  decide

/-! ## non-vacuity: the hypotheses are satisfiable by a concrete, non-trivial instance -/

example : walkForward (fun i => toString i) [10, 20, 30, 40, 50] 2 6 none = some [10, 20, 30, 40, 50] := by
  decide
example : walkBackward (fun i => toString i) [10, 20, 30, 40, 50] 2 6 none = some [10, 20, 30, 40, 50] := by
  decide

end GitBugModel.Props.C20

import GitBugModel.Model.Dag
import GitBugModel.Lemmas.PackSort
import GitBugModel.Gen.Dag
/-!
# C03 — operation order is deterministic, causal and clock-consistent

`read` (model of `dag.read`) either refuses a history or returns the operations of its packs
sorted by (edit time, pack id).  The theorems: what a successful read guarantees about the
history (`read_wellformed`: one root with a creation time, empty merge commits, every edge
strictly increases the edit time, non-merge hops ≤ 10^6), that a well-formed history is never
refused (`wellformed_read`), that the order respects ancestry (`read_causal`) and keeps each
pack's operations contiguous, and that it does not depend on any enumeration order
(`read_enum_indep`).
-/
namespace GitBugModel.Props.C03
open GitBugModel.Dag

/-! ## first pass -/

def rootsIn (order : List Commit) : Nat := (order.filter (fun c => c.parents.isEmpty)).length

/-- what the first pass demands of one commit -/
def CommitOK (c : Commit) (p : Pack) : Prop :=
  c.pack = .ok p ∧ p.validate = true ∧ (c.parents.length > 1 → p.ops = []) ∧ (c.parents = [] → p.create ≠ 0)

theorem checkCommit_ok {c : Commit} {r : Nat} {p : Pack} (h : checkCommit c r = .ok p) :
    ¬ (c.parents = [] ∧ r > 1) ∧ CommitOK c p := by
  unfold checkCommit at h
  split at h
  · cases h
  · rename_i hroot
    split at h
    · cases h
    · rename_i p' hp
      split at h
      · cases h
      · rename_i hval
        split at h
        · cases h
        · rename_i hmerge
          split at h
          · cases h
          · rename_i hcreate
            cases h
            refine ⟨?_, hp, ?_, ?_, ?_⟩
            · intro ⟨h1, h2⟩
              apply hroot
              simp [h1, h2]
            · simpa using hval
            · intro hl
              simp only [Bool.and_eq_true, decide_eq_true_eq, Bool.not_eq_true', not_and, Bool.not_eq_false] at hmerge
              simpa using hmerge hl
            · intro hnil
              simp only [hnil, List.isEmpty_nil, Bool.true_and, beq_iff_eq] at hcreate
              exact hcreate

theorem checkCommit_complete {c : Commit} {r : Nat} {p : Pack}
    (hr : ¬ (c.parents = [] ∧ r > 1)) (hc : CommitOK c p) : checkCommit c r = .ok p := by
  obtain ⟨hp, hval, hmerge, hcreate⟩ := hc
  unfold checkCommit
  have h1 : (c.parents.isEmpty && decide (r > 1)) = false := by
    cases hn : c.parents.isEmpty with
    | false => rfl
    | true =>
      have : c.parents = [] := by simpa using hn
      have : ¬ r > 1 := fun h => hr ⟨this, h⟩
      simp [this]
  simp only [h1, Bool.false_eq_true, if_false, hp, hval, Bool.not_true]
  have h2 : (decide (c.parents.length > 1) && !p.ops.isEmpty) = false := by
    by_cases hl : c.parents.length > 1
    · simp [hl, hmerge hl]
    · simp [hl]
  have h3 : (c.parents.isEmpty && p.create == 0) = false := by
    cases hn : c.parents.isEmpty with
    | false => rfl
    | true =>
      have : c.parents = [] := by simpa using hn
      have := hcreate this
      simp [this]
  simp [h2, h3]

theorem pass1_ok {order : List Commit} {r : Nat} {m : List (String × Pack)} (h : pass1 order r = .ok m) :
    (rootsIn order = 0 ∨ r + rootsIn order ≤ 1) ∧
    m.map (·.1) = order.map (·.hash) ∧
    (∀ c ∈ order, ∃ p, CommitOK c p) ∧
    (∀ x ∈ m, ∃ c ∈ order, x.1 = c.hash ∧ c.pack = .ok x.2) := by
  induction order generalizing r m with
  | nil => simp [pass1] at h; subst h; simp [rootsIn]
  | cons c rest ih =>
    unfold pass1 at h
    simp only at h
    split at h
    · cases h
    · rename_i p hp
      split at h
      · cases h
      · rename_i m' hm'
        cases h
        obtain ⟨hroot, hok⟩ := checkCommit_ok hp
        obtain ⟨ih1, ih2, ih3, ih4⟩ := ih hm'
        refine ⟨?_, ?_, ?_, ?_⟩
        · simp only [rootsIn, List.filter_cons] at ih1 ⊢
          by_cases hr : c.parents.isEmpty = true
          · have hnil : c.parents = [] := by simpa using hr
            simp only [hr, if_true, List.length_cons] at ih1 hroot ⊢
            have : ¬ (r + 1 > 1) := fun h => hroot ⟨hnil, h⟩
            right; omega
          · simp only [hr, Bool.false_eq_true, if_false] at ih1 ⊢
            exact ih1
        · simp [ih2]
        · intro c' hc'
          cases hc' with
          | head => exact ⟨p, hok⟩
          | tail _ hr => exact ih3 c' hr
        · intro x hx
          cases hx with
          | head => exact ⟨c, List.mem_cons_self, rfl, hok.1⟩
          | tail _ hr =>
            obtain ⟨c', hc', h1, h2⟩ := ih4 x hr
            exact ⟨c', List.mem_cons_of_mem _ hc', h1, h2⟩

theorem pass1_complete {order : List Commit} {r : Nat}
    (hr : rootsIn order = 0 ∨ r + rootsIn order ≤ 1)
    (hc : ∀ c ∈ order, ∃ p, CommitOK c p) : ∃ m, pass1 order r = .ok m := by
  induction order generalizing r with
  | nil => exact ⟨[], rfl⟩
  | cons c rest ih =>
    obtain ⟨p, hcok⟩ := hc c List.mem_cons_self
    have hrest : ∀ c' ∈ rest, ∃ p, CommitOK c' p := fun c' h => hc c' (List.mem_cons_of_mem _ h)
    unfold pass1
    simp only
    by_cases hroot : c.parents.isEmpty = true
    · simp only [rootsIn, List.filter_cons, hroot, if_true, List.length_cons] at hr
      have hr' : r + 1 + rootsIn rest ≤ 1 := by
        simp only [rootsIn]
        rcases hr with h | h <;> omega
      obtain ⟨m', hm'⟩ := ih (r := r + 1) (Or.inr hr') hrest
      have hcc := checkCommit_complete (r := r + 1) (by intro ⟨_, h⟩; omega) hcok
      simp only [hroot, if_true, hcc, hm']
      exact ⟨_, rfl⟩
    · have hne : c.parents.isEmpty = false := by simpa using hroot
      simp only [rootsIn, List.filter_cons, hne, Bool.false_eq_true, if_false] at hr
      obtain ⟨m', hm'⟩ := ih (r := r) hr hrest
      have hcc := checkCommit_complete (r := r) (by intro ⟨h, _⟩; simp [h] at hne) hcok
      simp only [hne, Bool.false_eq_true, if_false, hcc, hm']
      exact ⟨_, rfl⟩

/-! ## second pass -/

def EdgeOK (m : List (String × Pack)) (c : Commit) (p : Pack) : Prop :=
  ∀ ph ∈ c.parents, ∃ pp, packOf m ph = some pp ∧ pp.edit < p.edit ∧
    (c.parents.length ≤ 1 → p.edit - pp.edit ≤ hopLimit)

theorem checkEdges_ok {m : List (String × Pack)} {isMerge : Bool} {p : Pack} {ps : List String}
    (h : checkEdges m isMerge p ps = .ok ()) :
    ∀ ph ∈ ps, ∃ pp, packOf m ph = some pp ∧ pp.edit < p.edit ∧ (isMerge = false → p.edit - pp.edit ≤ hopLimit) := by
  induction ps with
  | nil => intro ph hph; cases hph
  | cons a rest ih =>
    unfold checkEdges at h
    split at h
    · cases h
    · rename_i he
      intro ph hph
      cases hph with
      | tail _ hr => exact ih h ph hr
      | head =>
        unfold checkEdge at he
        split at he
        · cases he
        · rename_i pp hpp
          split at he
          · cases he
          · rename_i hge
            split at he
            · cases he
            · rename_i hj
              refine ⟨pp, hpp, by omega, ?_⟩
              intro hm
              simp only [hm, Bool.not_false, Bool.true_and, decide_eq_true_eq] at hj
              omega

theorem checkEdges_complete {m : List (String × Pack)} {isMerge : Bool} {p : Pack} {ps : List String}
    (h : ∀ ph ∈ ps, ∃ pp, packOf m ph = some pp ∧ pp.edit < p.edit ∧ (isMerge = false → p.edit - pp.edit ≤ hopLimit)) :
    checkEdges m isMerge p ps = .ok () := by
  induction ps with
  | nil => rfl
  | cons a rest ih =>
    obtain ⟨pp, hpp, hlt, hj⟩ := h a List.mem_cons_self
    unfold checkEdges
    have : checkEdge m isMerge p a = .ok () := by
      unfold checkEdge
      simp only [hpp]
      have h1 : ¬ (pp.edit ≥ p.edit) := by omega
      simp only [h1, if_false]
      cases isMerge with
      | true => simp
      | false => have := hj rfl; simp; omega
    simp only [this]
    exact ih (fun ph hph => h ph (List.mem_cons_of_mem _ hph))

theorem pass2_ok {m : List (String × Pack)} {order : List Commit} (h : pass2 m order = .ok ()) :
    ∀ c ∈ order, ∃ p, packOf m c.hash = some p ∧ EdgeOK m c p := by
  induction order with
  | nil => intro c hc; cases hc
  | cons a rest ih =>
    unfold pass2 at h
    split at h
    · cases h
    · rename_i p hp
      split at h
      · cases h
      · rename_i he
        intro c hc
        cases hc with
        | tail _ hr => exact ih h c hr
        | head =>
          refine ⟨p, hp, ?_⟩
          intro ph hph
          obtain ⟨pp, h1, h2, h3⟩ := checkEdges_ok he ph hph
          refine ⟨pp, h1, h2, ?_⟩
          intro hl
          apply h3
          simp; omega

theorem pass2_complete {m : List (String × Pack)} {order : List Commit}
    (h : ∀ c ∈ order, ∃ p, packOf m c.hash = some p ∧ EdgeOK m c p) : pass2 m order = .ok () := by
  induction order with
  | nil => rfl
  | cons a rest ih =>
    obtain ⟨p, hp, he⟩ := h a List.mem_cons_self
    unfold pass2
    simp only [hp]
    have : checkEdges m (decide (a.parents.length > 1)) p a.parents = .ok () := by
      apply checkEdges_complete
      intro ph hph
      obtain ⟨pp, h1, h2, h3⟩ := he ph hph
      refine ⟨pp, h1, h2, ?_⟩
      intro hm
      apply h3
      simp at hm; omega
    simp only [this]
    exact ih (fun c hc => h c (List.mem_cons_of_mem _ hc))

/-! ## what a successful read means, and the converse -/

/-- A history (the commits collected from the head, in collection order) is well formed. -/
structure WellFormed (order : List Commit) (m : List (String × Pack)) : Prop where
  oneRoot : rootsIn order ≤ 1
  keys : m.map (·.1) = order.map (·.hash)
  commits : ∀ c ∈ order, ∃ p, CommitOK c p
  packs : ∀ x ∈ m, ∃ c ∈ order, x.1 = c.hash ∧ c.pack = .ok x.2
  edges : ∀ c ∈ order, ∃ p, packOf m c.hash = some p ∧ EdgeOK m c p

/-- `read_wellformed`: a history that is read (not refused) has a single root carrying a
creation time, valid packs, empty merge commits, edit times strictly increasing along every
edge and no non-merge hop above the limit; and the result is the sorted concatenation. -/
theorem read_wellformed {s : Store} {head : String} {e : Entity} (h : Dag.read s head = .ok e) :
    ∃ order m, bfs s (s.length + 1) [head] [head] [] = .ok order ∧ WellFormed order m ∧
      e.packs = m.map (·.2) ∧ e.ops = opsOf e.packs ∧ e.lastCommit = head := by
  unfold Dag.read at h
  split at h
  · cases h
  · rename_i order hb
    split at h
    · cases h
    · rename_i m h1
      split at h
      · cases h
      · rename_i h2
        unfold mkEntity at h
        split at h
        · cases h
        · cases h
          obtain ⟨hr, hk, hc, hpk⟩ := pass1_ok h1
          refine ⟨order, m, hb, ⟨by omega, hk, hc, hpk, pass2_ok h2⟩, rfl, rfl, rfl⟩

/-- `wellformed_read`: conversely a well-formed history is never refused. -/
theorem wellformed_read {s : Store} {head : String} {order : List Commit}
    (hb : bfs s (s.length + 1) [head] [head] [] = .ok order)
    (hroot : rootsIn order ≤ 1)
    (hc : ∀ c ∈ order, ∃ p, CommitOK c p)
    (he : ∀ m, pass1 order 0 = .ok m → ∀ c ∈ order, ∃ p, packOf m c.hash = some p ∧ EdgeOK m c p)
    (hops : ∀ m, pass1 order 0 = .ok m → (opsOf (m.map (·.2))).isEmpty = false) :
    ∃ e, Dag.read s head = .ok e := by
  obtain ⟨m, hm⟩ := pass1_complete (r := 0) (by omega) hc
  have h2 := pass2_complete (he m hm)
  unfold Dag.read mkEntity
  simp only [hb, hm, h2, hops m hm]
  exact ⟨_, rfl⟩

/-- a history whose packs carry no operation at all is refused (an entity is its first operation) -/
theorem refuses_without_operations {s : Store} {head : String} {e : Entity} (h : Dag.read s head = .ok e) :
    e.ops ≠ [] := by
  unfold Dag.read at h
  split at h
  · cases h
  · split at h
    · cases h
    · split at h
      · cases h
      · unfold mkEntity at h
        split at h
        · cases h
        · rename_i hne
          cases h
          intro hnil
          simp only at hnil
          rw [hnil] at hne
          simp at hne

/-! ## refusals (contrapositives of `read_wellformed`, one per class) -/

theorem refuses_two_roots {s : Store} {head : String} {order : List Commit}
    (hb : bfs s (s.length + 1) [head] [head] [] = .ok order) (h2 : rootsIn order ≥ 2) :
    ∀ e, Dag.read s head ≠ .ok e := by
  intro e he
  obtain ⟨order', m, hb', wf, _⟩ := read_wellformed he
  rw [hb] at hb'; cases hb'
  have := wf.oneRoot; omega

theorem refuses_merge_with_ops {s : Store} {head : String} {order : List Commit}
    (hb : bfs s (s.length + 1) [head] [head] [] = .ok order)
    (c : Commit) (hc : c ∈ order) (p : Pack) (hp : c.pack = .ok p) (hm : c.parents.length > 1) (ho : p.ops ≠ []) :
    ∀ e, Dag.read s head ≠ .ok e := by
  intro e he
  obtain ⟨order', m, hb', wf, _⟩ := read_wellformed he
  rw [hb] at hb'; cases hb'
  obtain ⟨p', hp', _, hmerge, _⟩ := wf.commits c hc
  rw [hp] at hp'; cases hp'
  exact ho (hmerge hm)

theorem refuses_root_without_create {s : Store} {head : String} {order : List Commit}
    (hb : bfs s (s.length + 1) [head] [head] [] = .ok order)
    (c : Commit) (hc : c ∈ order) (p : Pack) (hp : c.pack = .ok p) (hr : c.parents = []) (h0 : p.create = 0) :
    ∀ e, Dag.read s head ≠ .ok e := by
  intro e he
  obtain ⟨order', m, hb', wf, _⟩ := read_wellformed he
  rw [hb] at hb'; cases hb'
  obtain ⟨p', hp', _, _, hcreate⟩ := wf.commits c hc
  rw [hp] at hp'; cases hp'
  exact hcreate hr h0

theorem refuses_undecodable {s : Store} {head : String} {order : List Commit}
    (hb : bfs s (s.length + 1) [head] [head] [] = .ok order)
    (c : Commit) (hc : c ∈ order) (err : Err) (hp : c.pack = .error err) :
    ∀ e, Dag.read s head ≠ .ok e := by
  intro e he
  obtain ⟨order', m, hb', wf, _⟩ := read_wellformed he
  rw [hb] at hb'; cases hb'
  obtain ⟨p', hp', _⟩ := wf.commits c hc
  rw [hp] at hp'; cases hp'

/-- clocks contradicting ancestry, or an implausible jump, are refused -/
theorem refuses_bad_clock {s : Store} {head : String} {e : Entity} (he : Dag.read s head = .ok e) :
    ∃ order m, bfs s (s.length + 1) [head] [head] [] = .ok order ∧
      ∀ c ∈ order, ∀ ph ∈ c.parents, ∃ p pp, packOf m c.hash = some p ∧ packOf m ph = some pp ∧
        pp.edit < p.edit ∧ (c.parents.length ≤ 1 → p.edit - pp.edit ≤ 1000000) := by
  obtain ⟨order, m, hb, wf, _⟩ := read_wellformed he
  refine ⟨order, m, hb, ?_⟩
  intro c hc ph hph
  obtain ⟨p, hp, hedge⟩ := wf.edges c hc
  obtain ⟨pp, hpp, hlt, hj⟩ := hedge ph hph
  exact ⟨p, pp, hp, hpp, hlt, hj⟩

/-! ## causality: ancestry implies position -/

/-- `a` is an ancestor of `c` among the collected commits -/
inductive Anc (order : List Commit) : String → String → Prop where
  | parent (c : Commit) (hc : c ∈ order) (ph : String) (hp : ph ∈ c.parents) : Anc order ph c.hash
  | trans {a b c : String} : Anc order a b → Anc order b c → Anc order a c

/-- edit times strictly increase from any ancestor to any descendant -/
theorem anc_edit_lt {order : List Commit} {m : List (String × Pack)} (wf : WellFormed order m)
    {a c : String} (h : Anc order a c) :
    ∃ pa pc, packOf m a = some pa ∧ packOf m c = some pc ∧ pa.edit < pc.edit := by
  induction h with
  | parent c hc ph hp =>
    obtain ⟨p, hpk, hedge⟩ := wf.edges c hc
    obtain ⟨pp, hpp, hlt, _⟩ := hedge ph hp
    exact ⟨pp, p, hpp, hpk, hlt⟩
  | trans _ _ ih1 ih2 =>
    obtain ⟨pa, pb, h1, h2, h3⟩ := ih1
    obtain ⟨pb', pc, h4, h5, h6⟩ := ih2
    rw [h2] at h4; cases h4
    exact ⟨pa, pc, h1, h5, by omega⟩

/-- in a sorted list, a pack with a smaller edit time comes first -/
theorem sorted_split {L : List Pack} (hs : L.Pairwise packLe) {P Q : Pack} (hP : P ∈ L) (hQ : Q ∈ L)
    (hlt : P.edit < Q.edit) : ∃ A B C, L = A ++ P :: B ++ Q :: C := by
  induction L with
  | nil => cases hP
  | cons x xs ih =>
    rw [List.pairwise_cons] at hs
    cases hP with
    | head =>
      cases hQ with
      | head => omega
      | tail _ hq =>
        obtain ⟨B, C, hBC⟩ := List.append_of_mem hq
        exact ⟨[], B, C, by simp [hBC]⟩
    | tail _ hp =>
      cases hQ with
      | head =>
        -- Q is the head and P comes later: contradicts sortedness
        have := hs.1 P hp
        unfold packLe packLt at this
        simp only [Bool.or_eq_false_iff, decide_eq_false_iff_not] at this
        omega
      | tail _ hq =>
        obtain ⟨A, B, C, h⟩ := ih hs.2 hp hq
        exact ⟨x :: A, B, C, by simp [h]⟩

/-- `read_causal`: when `a` is an ancestor of `c`, every operation of `a`'s commit is placed
before every operation of `c`'s commit, each commit's operations staying contiguous and in
stored order. -/
theorem read_causal {s : Store} {head : String} {e : Entity} (he : Dag.read s head = .ok e) :
    ∃ order m, bfs s (s.length + 1) [head] [head] [] = .ok order ∧ WellFormed order m ∧
      ∀ a c, Anc order a c → ∃ pa pc, packOf m a = some pa ∧ packOf m c = some pc ∧
        ∃ A B C, e.ops = A ++ pa.ops ++ B ++ pc.ops ++ C := by
  obtain ⟨order, m, hb, wf, hpacks, hops, _⟩ := read_wellformed he
  refine ⟨order, m, hb, wf, ?_⟩
  intro a c hanc
  obtain ⟨pa, pc, h1, h2, hlt⟩ := anc_edit_lt wf hanc
  refine ⟨pa, pc, h1, h2, ?_⟩
  have mem_of : ∀ h p, packOf m h = some p → p ∈ e.packs := by
    intro h p hp
    unfold packOf at hp
    rw [hpacks]
    cases hf : m.find? (fun x => x.1 == h) with
    | none => simp [hf] at hp
    | some x =>
      simp [hf] at hp
      rw [List.mem_map]
      exact ⟨x, List.mem_of_find?_eq_some hf, hp⟩
  have hPa := (sortPacks_perm e.packs).symm.subset (mem_of a pa h1)
  have hPc := (sortPacks_perm e.packs).symm.subset (mem_of c pc h2)
  obtain ⟨A, B, C, hsplit⟩ := sorted_split (sortPacks_sorted e.packs) hPa hPc hlt
  refine ⟨A.flatMap (·.ops), B.flatMap (·.ops), C.flatMap (·.ops), ?_⟩
  rw [hops]
  unfold opsOf
  rw [hsplit]
  simp [List.flatMap_append, List.flatMap_cons]

/-- each pack's operations appear contiguously, in stored order -/
theorem read_pack_contiguous {s : Store} {head : String} {e : Entity} (he : Dag.read s head = .ok e)
    (p : Pack) (hp : p ∈ e.packs) : ∃ A B, e.ops = A ++ p.ops ++ B := by
  obtain ⟨order, m, hb, wf, hpacks, hops, _⟩ := read_wellformed he
  have := (sortPacks_perm e.packs).symm.subset hp
  obtain ⟨A, B, hAB⟩ := List.append_of_mem this
  refine ⟨A.flatMap (·.ops), B.flatMap (·.ops), ?_⟩
  rw [hops]; unfold opsOf; rw [hAB]
  simp [List.flatMap_append, List.flatMap_cons]

/-- `read_sorted`: concurrent commits are ordered by edit time, then pack id -/
theorem read_sorted {s : Store} {head : String} {e : Entity} (he : Dag.read s head = .ok e) :
    e.ops = (sortPacks e.packs).flatMap (·.ops) ∧ (sortPacks e.packs).Pairwise packLe ∧
    (sortPacks e.packs).Perm e.packs := by
  obtain ⟨_, _, _, _, _, hops, _⟩ := read_wellformed he
  exact ⟨hops, sortPacks_sorted _, sortPacks_perm _⟩

/-- `read_enum_indep`: whatever order the pack map is enumerated in (any permutation), and
whatever packs without operations are present, the operation list is the same. -/
theorem read_enum_indep {s : Store} {head : String} {e : Entity} (he : Dag.read s head = .ok e)
    (hk : KeyOK e.packs) (enum : List Pack) (hperm : enum.Perm e.packs) :
    opsOf enum = e.ops := by
  obtain ⟨_, _, _, _, _, hops, _⟩ := read_wellformed he
  rw [hops]
  exact opsOf_perm hperm (KeyOK_perm hperm.symm hk)

/-- reading is a function: the same store and head give the same result -/
theorem read_deterministic (s : Store) (head : String) (e₁ e₂ : Entity)
    (h₁ : Dag.read s head = .ok e₁) (h₂ : Dag.read s head = .ok e₂) : e₁.ops = e₂.ops := by
  rw [h₁] at h₂; cases h₂; rfl

/-! ## regenerated obligation: the comparisons of `dag.read` in the source are those the model transcribes

`checkCommit` (root count, merge content, creation time), `checkEdge` (`≥`, hop limit 10^6),
`packLt` (edit time, then pack id), `maxOf`.  A change of any comparison operator, operand or
constant in `read` changes this list. -/

theorem gen_read_comparisons :
    GitBugModel.Gen.Dag.readComparisons = some [
      "len(queue) > 0", "len(commit.Parents) == 0", "len(commit.Parents) > 1", "rootCount > 1",
      "len(opp.Operations) > 0", "opp.CreateTime <= 0", "len(commit.Parents) > 1",
      "parentPack.EditTime >= opp.EditTime", "opp.EditTime-parentPack.EditTime > 1_000_000",
      "oppSlice[i].EditTime != oppSlice[j].EditTime", "oppSlice[i].EditTime < oppSlice[j].EditTime",
      "oppSlice[i].Id() < oppSlice[j].Id()", "pack.CreateTime > createTime", "pack.EditTime > editTime", "len(ops) == 0"] := by
  decide

/-! ## non-vacuity: a fork with branches of unequal length (1 vs 2 commits) and a merge -/

private def pk (id : String) (ops : List String) (c e : Nat) : Except Err Pack :=
  .ok { id := id, author := "a", ops := ops.map (fun o => { id := o, kind := if o == "create" then 1 else 3 }), create := c, edit := e }
private def demo : Store := [
  { hash := "R", parents := [], pack := pk "p0" ["create"] 1 1 },
  { hash := "A1", parents := ["R"], pack := pk "pa1" ["a1"] 0 2 },
  { hash := "B1", parents := ["R"], pack := pk "pb1" ["b1"] 0 2 },
  { hash := "B2", parents := ["B1"], pack := pk "pb2" ["b2"] 0 3 },
  { hash := "M", parents := ["A1", "B2"], pack := pk "pm" [] 0 4 }]

example : (match Dag.read demo "M" with | .ok e => e.ops.map (·.id) | .error _ => []) = ["create", "a1", "b1", "b2"] := by
  decide
example : (match Dag.read (demo ++ [{ hash := "X", parents := ["M"], pack := pk "px" ["x"] 0 4 }]) "X" with
    | .ok _ => "ok" | .error e => if e = .clockOrder then "clockOrder" else "other") = "clockOrder" := by
  decide

end GitBugModel.Props.C03

/-
Model of entity removal at the ref level: `dag.Remove` / `dag.RemoveAll`
(`entity/dag/entity_actions.go`), `identity.Remove` / `identity.RemoveAll`
(`entities/identity/identity_actions.go`) and the ref part of `git-bug wipe`.  Core Lean only.

A repository's refs are a list of names (all distinct); the namespaces are "bugs" and "identities".
-/
namespace GitBugModel.Refs

def localRef (ns id : String) : String := "refs/" ++ ns ++ "/" ++ id
def remoteRef (remote ns id : String) : String := "refs/remotes/" ++ remote ++ "/" ++ ns ++ "/" ++ id

/-- the refs `Remove` deletes for entity `id`: the local one and one per configured remote -/
def targets (ns id : String) (remotes : List String) : List String :=
  localRef ns id :: remotes.map (fun r => remoteRef r ns id)

/-- `Remove`: `RemoveRef` on every target (deleting an absent ref is a no-op) -/
def remove (refs : List String) (ns id : String) (remotes : List String) : List String :=
  refs.filter (fun r => !(targets ns id remotes).contains r)

/-- ids that exist locally in namespace `ns` -/
def isLocalOf (ns : String) (r : String) : Bool := ("refs/" ++ ns ++ "/").toList.isPrefixOf r.toList
def isTrackingOf (remote ns : String) (r : String) : Bool := ("refs/remotes/" ++ remote ++ "/" ++ ns ++ "/").toList.isPrefixOf r.toList

/-- `RemoveAll`: every local entity of the namespace (with its remote-tracking refs), and every
remaining remote-tracking ref of the namespace for the configured remotes (entities that were
fetched but never merged, or removed locally before) -/
def removeAll (refs : List String) (ns : String) (remotes : List String) : List String :=
  refs.filter (fun r => !(isLocalOf ns r || remotes.any (fun rm => isTrackingOf rm ns r)))

/-- the pinned tree's `RemoveAll`: only the tracking refs of entities that exist locally go -/
def removeAllLocalIdsOnly (refs : List String) (ns : String) (remotes : List String) (localIds : List String) : List String :=
  localIds.foldl (fun rs id => remove rs ns id remotes) refs

/-- is the ref in one of git-bug's namespaces (for the given remotes)? -/
def isGitBugRef (remotes : List String) (r : String) : Bool :=
  ["bugs", "identities"].any (fun ns => isLocalOf ns r || remotes.any (fun rm => isTrackingOf rm ns r))

/-- the ref part of `wipe` -/
def wipe (refs : List String) (remotes : List String) : List String :=
  removeAll (removeAll refs "bugs" remotes) "identities" remotes


/-! ### removal of packed refs (go-git: read `packed-refs`, write a copy without the ref, rename) -/

/-- one goroutine removing ref `ref`: it has not read the file yet, or holds the content it read -/
structure Rewriter where
  ref : String
  snap : Option (List String) := none
  done : Bool := false
deriving DecidableEq, Repr

/-- goroutine `i` does its next step (read the file / replace the file by its copy without the ref) -/
def rewriteStep (file : List String) (ts : List Rewriter) (i : Nat) : List String × List Rewriter :=
  match ts[i]? with
  | none => (file, ts)
  | some t =>
    if t.done then (file, ts)
    else match t.snap with
      | none => (file, ts.set i { t with snap := some file })
      | some content => (content.filter (· != t.ref), ts.set i { t with done := true })

def rewriteRun (file : List String) (ts : List Rewriter) (sched : List Nat) : List String × List Rewriter :=
  sched.foldl (fun st i => rewriteStep st.1 st.2 i) (file, ts)

/-- the removals done one after the other (each reads what the previous one wrote) -/
def removeSerial (file : List String) (rs : List String) : List String :=
  rs.foldl (fun f r => f.filter (· != r)) file

end GitBugModel.Refs

/-
Model of the GitLab importer's de-duplication (`bridge/gitlab/import.go`: ensureIssue,
ensureIssueEvent) and of the cursor rule of `bridge/core/bridge.go:ImportAllSince`.
Core Lean only.  Texts are the texts after `text.Cleanup` / `text.CleanupOneLine`.
-/
namespace GitBugModel.Import

inductive Kind where
  | comment (body : String)      -- a user's note with its current text
  | title                        -- "changed title from … to …" system note
  | descNote                     -- "changed the description" system note
  | label | state                -- resource label / state event
  | ignored                      -- assignments, due dates, mentions, locks
deriving DecidableEq, Repr

structure Ev where
  id : String
  kind : Kind
deriving DecidableEq, Repr

/-- what the local bug remembers of the tracker -/
structure St where
  known : List String                 -- event ids stored as operation metadata
  comments : List (String × String)   -- note id ↦ text of the comment as imported
  desc : String                       -- text of the first comment
deriving DecidableEq, Repr

def bodyOf (st : St) (id : String) : Option String := (st.comments.find? (fun p => p.1 == id)).map (·.2)

def setBody (cs : List (String × String)) (id body : String) : List (String × String) :=
  if cs.any (fun p => p.1 == id) then cs.map (fun p => if p.1 == id then (id, body) else p) else cs ++ [(id, body)]

/-- `ensureIssueEvent` for one event; `desc` is the issue's current description.  Returns the
state and the number of operations added (0 or 1). -/
def step (desc : String) (st : St) (e : Ev) : St × Nat :=
  match e.kind with
  | .ignored => (st, 0)
  | .comment body =>
    if e.id ∈ st.known then
      -- imported before: an edit when the text differs now
      if bodyOf st e.id = some body then (st, 0)
      else ({ st with comments := setBody st.comments e.id body }, 1)
    else ({ st with known := e.id :: st.known, comments := setBody st.comments e.id body }, 1)
  | .descNote =>
    if e.id ∈ st.known then (st, 0)
    else if st.desc = desc then (st, 0)
    else ({ st with known := e.id :: st.known, desc := desc }, 1)
  | .title | .label | .state =>
    if e.id ∈ st.known then (st, 0) else ({ st with known := e.id :: st.known }, 1)

def pass (desc : String) : St → List Ev → St × Nat
  | st, [] => (st, 0)
  | st, e :: rest =>
    let (st1, n) := step desc st e
    let (st2, m) := pass desc st1 rest
    (st2, n + m)

/-- the cursor rule: the time of this import becomes the cursor only when no error was relayed -/
def cursorAfter (old : Option Nat) (start : Nat) (errors : Nat) : Option Nat :=
  if errors == 0 then some start else old

end GitBugModel.Import

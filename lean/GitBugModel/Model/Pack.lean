import GitBugModel.Model.Bug
/-
Model of the on-disk form of operations and operation packs: the JSON structure written by
`json.Marshal` for the operation structs (`entities/bug/op_*.go`, `entity/dag/operation.go`),
`operationPack.MarshalJSON` / `unmarshallPack`, and the git tree of `operationPack.Write` /
`readOperationPack` (`entity/dag/operation_pack.go`).  Core Lean only.

The byte level (how `encoding/json` renders strings and numbers) is outside the model: JSON is a
tree of values here.
-/
namespace GitBugModel.Pack
open GitBugModel.Bug

inductive JVal where
  | null
  | num (n : Int)
  | str (s : String)
  | strs (l : List String)                 -- array of strings
  | dict (l : List (String × String))      -- object with string values
  | obj (fields : List (String × JVal))
  | arr (l : List JVal)
deriving Repr, Inhabited

def JVal.field? (j : JVal) (k : String) : Option JVal :=
  match j with
  | .obj fs => (fs.find? (fun p => p.1 == k)).map (·.2)
  | _ => none

def getStr? (j : JVal) (k : String) : Option String :=
  match j.field? k with | some (.str s) => some s | _ => none
def getNum? (j : JVal) (k : String) : Option Int :=
  match j.field? k with | some (.num n) => some n | _ => none
/-- a list field: `null` (nil slice) and a missing field read as empty -/
def getStrs? (j : JVal) (k : String) : Option (List String) :=
  match j.field? k with | some (.strs l) => some l | some .null => some [] | none => some [] | _ => none
def getDict? (j : JVal) (k : String) : Option (List (String × String)) :=
  match j.field? k with | some (.dict l) => some l | some .null => some [] | none => some [] | _ => none

/-- common fields of `OpBase` (`metadata` has `omitempty`) -/
def baseFields (t : Nat) (b : Base) : List (String × JVal) :=
  [("type", .num t), ("timestamp", .num b.time), ("nonce", .str b.nonce)] ++
  (if b.md.isEmpty then [] else [("metadata", .dict b.md)])

/-- what `json.Marshal(op)` produces, as a tree -/
def toJ (o : Op) : JVal :=
  match o with
  | .create b title message files =>
    .obj (baseFields 1 b ++ [("title", .str title), ("message", .str message), ("files", .strs files)])
  | .setTitle b title was => .obj (baseFields 2 b ++ [("title", .str title), ("was", .str was)])
  | .addComment b message files => .obj (baseFields 3 b ++ [("message", .str message), ("files", .strs files)])
  | .setStatus b st => .obj (baseFields 4 b ++ [("status", .num st)])
  | .labelChange b added removed => .obj (baseFields 5 b ++ [("added", .strs added), ("removed", .strs removed)])
  | .editComment b target message files =>
    .obj (baseFields 6 b ++ [("target", .str target), ("message", .str message), ("files", .strs files)])
  | .noop b => .obj (baseFields 7 b)
  | .setMetadata b target nm => .obj (baseFields 8 b ++ [("target", .str target), ("new_metadata", .dict nm)])

inductive DecodeErr where
  | malformed            -- JSON of the wrong shape (json.Unmarshal error)
  | unknownType (t : Int) -- `operationUnmarshaler` reaches `default: panic(...)`
deriving Repr, DecidableEq

/-- `operationUnmarshaler` followed by `setId` / `setAuthor`: the id is the hash of the raw
JSON and the author is the pack's. -/
def fromJ (id author : String) (j : JVal) : Except DecodeErr Op :=
  match getNum? j "type" with
  | none => .error .malformed
  | some t =>
    match getNum? j "timestamp", getStr? j "nonce", getDict? j "metadata" with
    | some time, some nonce, some md =>
      let b : Base := { id := id, author := author, time := time, md := md, nonce := nonce }
      match t with
      | 1 => match getStr? j "title", getStr? j "message", getStrs? j "files" with
        | some ti, some m, some f => .ok (.create b ti m f) | _, _, _ => .error .malformed
      | 2 => match getStr? j "title", getStr? j "was" with
        | some ti, some w => .ok (.setTitle b ti w) | _, _ => .error .malformed
      | 3 => match getStr? j "message", getStrs? j "files" with
        | some m, some f => .ok (.addComment b m f) | _, _ => .error .malformed
      | 4 => match getNum? j "status" with
        | some s => .ok (.setStatus b s.toNat) | _ => .error .malformed
      | 5 => match getStrs? j "added", getStrs? j "removed" with
        | some a, some r => .ok (.labelChange b a r) | _, _ => .error .malformed
      | 6 => match getStr? j "target", getStr? j "message", getStrs? j "files" with
        | some tg, some m, some f => .ok (.editComment b tg m f) | _, _, _ => .error .malformed
      | 7 => .ok (.noop b)
      | 8 => match getStr? j "target", getDict? j "new_metadata" with
        | some tg, some nm => .ok (.setMetadata b tg nm) | _, _ => .error .malformed
      | _ => .error (.unknownType t)
    | _, _, _ => .error .malformed

/-- files referenced by a pack, each once, in order of first occurrence (`makeExtraTree`) -/
def opFiles : Op → List String
  | .create _ _ _ f | .addComment _ _ f | .editComment _ _ _ f => f
  | _ => []

def extraFiles (ops : List Op) : List String := (ops.flatMap opFiles).eraseDups

/-! ## the git tree of a pack

Entry names are kept structured (`version-N`, `ops`, `edit-clock-N`, `create-clock-N`, `extra`,
anything else); their decimal rendering and parsing (`fmt.Sprintf("%d")`, `strconv.ParseUint`)
is outside the model and is exercised by the harness's independent decoder. -/

inductive EName where
  | version (n : Nat) | ops | editClock (n : Nat) | createClock (n : Nat) | extra | other (s : String)
  | badVersion | badClock          -- a `version-`/clock prefix followed by something that is not a number
deriving Repr, DecidableEq

structure TreeEntry where
  name : EName
  target : String            -- blob/tree hash; clock and version entries point to the empty blob
deriving Repr, DecidableEq

def emptyBlob : String := "e69de29bb2d1d6434b8b29ae775ad8c2e48c5391"

/-- `operationPack.Write`: version, ops, edit clock, create clock when set, extra tree when files exist -/
def writeTree (formatVersion : Nat) (opsBlob extraTree : String) (edit create : Nat) (hasFiles : Bool) : List TreeEntry :=
  [{ name := .version formatVersion, target := emptyBlob },
   { name := .ops, target := opsBlob },
   { name := .editClock edit, target := emptyBlob }] ++
  (if create > 0 then [{ name := .createClock create, target := emptyBlob }] else []) ++
  (if hasFiles then [{ name := .extra, target := extraTree }] else [])

inductive TreeErr where
  | badVersion | unknownFormat | wrongFormat | badClock | noOps
deriving Repr, DecidableEq

structure TreeInfo where
  opsBlob : String
  edit : Nat
  create : Nat
deriving Repr, DecidableEq

/-- the version scan of `readOperationPack`: the first entry named `version-…` decides -/
def findVersion : List TreeEntry → Except TreeErr Nat
  | [] => .ok 0
  | e :: rest =>
    match e.name with
    | .version n => if n > 4096 then .error .badVersion else .ok n
    | .badVersion => .error .badVersion
    | _ => findVersion rest

def scanEntries : List TreeEntry → TreeInfo → Bool → Except TreeErr (TreeInfo × Bool)
  | [], info, seen => .ok (info, seen)
  | e :: rest, info, seen =>
    match e.name with
    | .ops => scanEntries rest { info with opsBlob := e.target } true
    | .createClock n => scanEntries rest { info with create := n } seen
    | .editClock n => scanEntries rest { info with edit := n } seen
    | .badClock => .error .badClock
    | _ => scanEntries rest info seen

/-- `readOperationPack` as far as the tree is concerned (`noOps`: the Go code dereferences a
nil author when there is no `ops` entry — see C07) -/
def readTree (formatVersion : Nat) (entries : List TreeEntry) : Except TreeErr TreeInfo :=
  match findVersion entries with
  | .error e => .error e
  | .ok v =>
    if v == 0 then .error .unknownFormat
    else if v != formatVersion then .error .wrongFormat
    else match scanEntries entries { opsBlob := "", edit := 0, create := 0 } false with
      | .error e => .error e
      | .ok (info, seen) => if seen then .ok info else .error .noOps

/-! ## `Entity.Commit`: the staging area is cut into runs of equal author -/

def splitRuns : List Op → List (List Op)
  | [] => []
  | o :: rest =>
    match splitRuns rest with
    | (o' :: run) :: more => if o.base.author == o'.base.author then (o :: o' :: run) :: more else [o] :: (o' :: run) :: more
    | _ => [[o]]

end GitBugModel.Pack

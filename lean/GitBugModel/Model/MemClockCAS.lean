/-
Small-step model of `util/lamport/mem_clock.go` under concurrency: `Increment` is one atomic add,
`Witness(v)` is the loop  load `cur`; if `v ≤ cur` return; `CAS(cur, v)`; on failure start again.
Goroutines are interleaved at the granularity of the atomic operations.  Core Lean only.
-/
namespace GitBugModel.MemClockCAS

inductive T where
  | inc                          -- about to do the atomic add
  | idle (v : Nat)               -- Witness(v): about to load the counter
  | loaded (v cur : Nat)         -- Witness(v): loaded `cur` (< v), about to compare-and-swap
  | doneW (v : Nat)              -- Witness(v) has returned
  | doneI (got : Nat)            -- Increment has returned `got`
deriving DecidableEq, Repr

structure St where
  counter : Nat
  threads : List T
deriving DecidableEq, Repr

def stepT (counter : Nat) : T → Nat × T
  | .inc => (counter + 1, .doneI (counter + 1))
  | .idle v => if v ≤ counter then (counter, .doneW v) else (counter, .loaded v counter)
  | .loaded v cur => if counter = cur then (v, .doneW v) else (counter, .idle v)
  | t => (counter, t)

/-- goroutine `i` performs its next atomic operation -/
def cstep (s : St) (i : Nat) : St :=
  match s.threads[i]? with
  | none => s
  | some t =>
    let r := stepT s.counter t
    { counter := r.1, threads := s.threads.set i r.2 }

def crun (s : St) (sched : List Nat) : St := sched.foldl cstep s

end GitBugModel.MemClockCAS

import GitBugModel.Model.Text
/-
Model of `entities/identity`: version chains, `Identity.Validate`, `Identity.Merge`
(fast-forward only), `identity.MergeAll` for one remote ref, `ValidKeysAtTime`.  Core Lean only.
-/
namespace GitBugModel.Identity

/-- A version as far as validation, merging and key validity can see it.  `text.SafeOneLine` is
modelled (`GitBugModel.Text.safeOneLine`, see `Version.withTexts`); `text.Empty` and `text.ValidUrl`
depend on Unicode tables / net/url and are supplied by the environment as flags. -/
structure Version where
  commit : String                    -- commit hash ("" while not committed)
  times : List (String × Nat)        -- Lamport times of the other entities (clock name ↦ time)
  nameEmpty : Bool := false
  loginEmpty : Bool := true
  nameSafe : Bool := true
  loginSafe : Bool := true
  emailSafe : Bool := true
  avatarOk : Bool := true            -- empty, or a valid URL
  nonceLen : Nat := 20
  keysOk : Bool := true
  keys : List String := []           -- key fingerprints
deriving DecidableEq, Repr, Inhabited

/-- the safety flags of a version computed from its texts, as `version.Validate` does with
`text.SafeOneLine(name)`, `text.SafeOneLine(login)`, `text.SafeOneLine(email)` -/
def Version.withTexts (v : Version) (name login email : List Char) : Version :=
  { v with nameSafe := Text.safeOneLine name, loginSafe := Text.safeOneLine login, emailSafe := Text.safeOneLine email }

/-- `version.Validate` (field part) -/
def Version.fieldsValid (v : Version) : Bool :=
  !(v.nameEmpty && v.loginEmpty) && v.nameSafe && v.loginSafe && v.emailSafe && v.avatarOk &&
  decide (v.nonceLen ≤ 64) && decide (20 ≤ v.nonceLen) && v.keysOk

def lookupTime (ts : List (String × Nat)) (name : String) : Option Nat :=
  (ts.find? (fun p => p.1 == name)).map (·.2)

/-- every clock known so far is still present and has not decreased -/
def timesOk (last now : List (String × Nat)) : Bool :=
  last.all fun p => match lookupTime now p.1 with
    | some t => decide (p.2 ≤ t)
    | none => false

/-- `lastTimes[name] = now` for every clock of the version -/
def updateTimes (last now : List (String × Nat)) : List (String × Nat) :=
  now ++ last.filter (fun p => (lookupTime now p.1).isNone)

def validateFrom (last : List (String × Nat)) : List Version → Bool
  | [] => true
  | v :: rest => v.fieldsValid && timesOk last v.times && validateFrom (updateTimes last v.times) rest

/-- `Identity.Validate` -/
def validate (vs : List Version) : Bool := !vs.isEmpty && validateFrom [] vs

inductive MergeRes where
  | updated (vs : List Version) (ref : String)   -- versions appended, ref moved to the last commit
  | nothing (vs : List Version)
  | nonFastForward (vs : List Version)           -- refused, local untouched
deriving DecidableEq, Repr

/-- The loop of `Identity.Merge` from index `j` over the remote versions still to look at. -/
def mergeLoop (loc : List Version) (j : Nat) (modified : Bool) (last : String) : List Version → Option (List Version × Bool × String)
  | [] => some (loc, modified, last)
  | ov :: rest =>
    -- if there is more version in other, take them
    let (loc', modified', last') := if loc.length == j then (loc ++ [ov], true, ov.commit) else (loc, modified, last)
    match loc'[j]? with
    | none => none   -- unreachable: after the append there is a version at index j
    | some lv => if lv.commit != ov.commit then none else mergeLoop loc' (j + 1) modified' last' rest

/-- `Identity.Merge` (the caller has checked that both have the same id). -/
def merge (loc remote : List Version) : MergeRes :=
  match mergeLoop loc 0 false "" remote with
  | none => .nonFastForward loc
  | some (vs, true, last) => .updated vs last
  | some (vs, false, _) => .nothing vs

/-- what `identity.MergeAll` reports for one remote identity that also exists locally -/
inductive MergeAllRes where
  | invalidRemote (vs : List Version)   -- the remote does not validate: refused, local untouched
  | merged (r : MergeRes)
deriving DecidableEq, Repr

/-- `identity.MergeAll` for an identity that exists locally: the remote identity is validated first,
and only a valid one is handed to `Identity.Merge` (which moves the local ref). -/
def mergeAll (loc remote : List Version) : MergeAllRes :=
  if validate remote then .merged (merge loc remote) else .invalidRemote loc

/-- the local history after the merge -/
def MergeAllRes.chain : MergeAllRes → List Version
  | .invalidRemote vs => vs
  | .merged (.updated vs _) => vs
  | .merged (.nothing vs) => vs
  | .merged (.nonFastForward vs) => vs

/-- `Identity.ValidKeysAtTime`: keys of the last version whose time for `clock` is ≤ `t`
(a version without that clock inherits the previous version's time). -/
def validKeysFrom (clock : String) (t : Nat) (lastTime : Nat) (result : List String) : List Version → List String
  | [] => result
  | v :: rest =>
    let refTime := (lookupTime v.times clock).getD lastTime
    if refTime > t then result else validKeysFrom clock t refTime v.keys rest

def validKeysAt (vs : List Version) (clock : String) (t : Nat) : List String := validKeysFrom clock t 0 [] vs

end GitBugModel.Identity

namespace GitBugModel.Identity

/-- what a commit carries as signature: nothing, or a detached signature made by some key,
which is cryptographically good for the commit's exact content or not (`CheckDetachedSignature`
is the environment: OpenPGP is trusted) -/
inductive Sig where
  | unsigned
  | signedBy (key : String) (goodForContent : Bool)
deriving DecidableEq, Repr

inductive Verdict where
  | accepted | signatureError
deriving DecidableEq, Repr

/-- the signature check of `readOperationPack` for a commit at edit time `t` by author `vs` -/
def checkCommit (vs : List Version) (clock : String) (t : Nat) (sig : Sig) : Verdict :=
  let keys := validKeysAt vs clock t
  if keys.isEmpty then .accepted
  else match sig with
    | .unsigned => .signatureError
    | .signedBy k good => if keys.contains k && good then .accepted else .signatureError

end GitBugModel.Identity

/-
Model of how Go's `encoding/json` writes and reads a string (`encodeState.string` with HTML
escaping on, as `json.Marshal` has it; `unquote` of the decoder) — the byte-level layer under the
operation packs and identity versions git-bug stores (`entity/dag/operation_pack.go`,
`entities/identity/version.go`).  Text is a list of Unicode scalar values (Lean's `Char`), which is
what a valid UTF-8 Go string holds; invalid UTF-8 is outside this model (Go writes U+FFFD for it).
Core Lean only.
-/
namespace GitBugModel.JsonStr

def hexDigit (n : Nat) : Char := if n < 10 then Char.ofNat (48 + n) else Char.ofNat (87 + n)

/-- four lower-case hexadecimal digits -/
def hex4 (n : Nat) : List Char :=
  [hexDigit (n / 4096 % 16), hexDigit (n / 256 % 16), hexDigit (n / 16 % 16), hexDigit (n % 16)]

/-- characters written as `\u00XX` / `\u202X`: control characters, what HTML could misread, and
the two line separators JavaScript cannot have in a string literal -/
def needsU (c : Char) : Bool :=
  c.toNat < 32 || c == '<' || c == '>' || c == '&' || c.toNat == 0x2028 || c.toNat == 0x2029

def encChar (c : Char) : List Char :=
  if c == '"' then ['\\', '"']
  else if c == '\\' then ['\\', '\\']
  else if c == '\n' then ['\\', 'n']
  else if c == '\r' then ['\\', 'r']
  else if c == '\t' then ['\\', 't']
  else if c.toNat == 8 then ['\\', 'b']
  else if c.toNat == 12 then ['\\', 'f']
  else if needsU c then '\\' :: 'u' :: hex4 c.toNat
  else [c]

/-- `json.Marshal` of a string -/
def encode (s : List Char) : List Char := '"' :: (s.flatMap encChar ++ ['"'])

def hexVal (c : Char) : Option Nat :=
  let n := c.toNat
  if 48 ≤ n && n ≤ 57 then some (n - 48)
  else if 97 ≤ n && n ≤ 102 then some (n - 87)
  else if 65 ≤ n && n ≤ 70 then some (n - 55)
  else none

def hex4Val (a b c d : Char) : Option Nat :=
  match hexVal a, hexVal b, hexVal c, hexVal d with
  | some x, some y, some z, some w => some (x * 4096 + y * 256 + z * 16 + w)
  | _, _, _, _ => none

def simpleEsc (e : Char) : Option Char :=
  if e == '"' then some '"' else if e == '\\' then some '\\' else if e == '/' then some '/'
  else if e == 'b' then some (Char.ofNat 8) else if e == 'f' then some (Char.ofNat 12)
  else if e == 'n' then some '\n' else if e == 'r' then some '\r' else if e == 't' then some '\t'
  else none

def consTo (c : Char) : Option (List Char × List Char) → Option (List Char × List Char)
  | some (d, r) => some (c :: d, r)
  | none => none

def replacement : Char := Char.ofNat 0xFFFD

/-- the body of a string literal after the opening quote: the text, and what follows the closing
quote.  `\uD8xx\uDCxx` pairs are one character; a surrogate alone is U+FFFD (as Go reads it).
One unit of fuel per character read (the loop of the Go decoder; `decode` gives enough). -/
def decBody : Nat → List Char → Option (List Char × List Char)
  | 0, _ => none
  | _, [] => none
  | n + 1, c :: rest =>
    if c == '"' then some ([], rest)
    else if c == '\\' then
      match rest with
      | [] => none
      | e :: rest2 =>
        if e == 'u' then
          match rest2 with
          | a :: b :: c2 :: d :: rest3 =>
            match hex4Val a b c2 d with
            | none => none
            | some v =>
              if 0xD800 ≤ v && v < 0xDC00 then
                -- a high surrogate: one character with a following low surrogate
                match rest3 with
                | '\\' :: 'u' :: a' :: b' :: c' :: d' :: rest4 =>
                  match hex4Val a' b' c' d' with
                  | some w =>
                    if 0xDC00 ≤ w && w < 0xE000 then
                      consTo (Char.ofNat (0x10000 + (v - 0xD800) * 1024 + (w - 0xDC00))) (decBody n rest4)
                    else consTo replacement (decBody n rest3)
                  | none => consTo replacement (decBody n rest3)
                | _ => consTo replacement (decBody n rest3)
              else if 0xDC00 ≤ v && v < 0xE000 then consTo replacement (decBody n rest3)
              else consTo (Char.ofNat v) (decBody n rest3)
          | _ => none
        else match simpleEsc e with
          | some x => consTo x (decBody n rest2)
          | none => none
    else if c.toNat < 32 then none
    else consTo c (decBody n rest)

/-- `json.Unmarshal` into a string, of exactly one literal -/
def decode (l : List Char) : Option (List Char) :=
  match l with
  | '"' :: body => match decBody (body.length + 1) body with
    | some (d, []) => some d
    | _ => none
  | _ => none

end GitBugModel.JsonStr

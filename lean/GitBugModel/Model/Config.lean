/-
Model of `goGitConfigWriter.RemoveAll` (`repository/gogit_config.go`) over go-git's raw configuration:
sections with options and subsections.  `wipe` calls `RemoveAll("git-bug")`; bridges and the web UI
call it with longer prefixes.  Section names compare without regard to case (go-git's `IsName`), as
in git.  Core Lean only.
-/
namespace GitBugModel.Config

structure Sub where
  name : String
  options : List (String × String)
deriving DecidableEq, Repr

structure Section where
  name : String
  options : List (String × String)
  subs : List Sub
deriving DecidableEq, Repr

abbrev Cfg := List Section

/-- go-git's `Section.IsName` -/
def isName (lower : String → String) (s : Section) (n : String) : Bool := lower s.name == lower n

/-- every key of the configuration, as `git config --list` prints them: section.option,
section.subsection.option -/
def keys (c : Cfg) : List String :=
  c.flatMap fun s => s.options.map (fun o => s.name ++ "." ++ o.1) ++
    s.subs.flatMap (fun sub => sub.options.map fun o => s.name ++ "." ++ sub.name ++ "." ++ o.1)

inductive Res where
  | ok (c : Cfg)
  | invalidPrefix
deriving DecidableEq, Repr

/-- `RemoveAll(keyPrefix)` with the prefix already split at its first dot: `sec` and the rest -/
def removeAll (lower : String → String) (c : Cfg) (sec : String) (rest : Option String) : Res :=
  match rest with
  | none =>
    if c.any (isName lower · sec) then .ok (c.filter fun s => !isName lower s sec) else .invalidPrefix
  | some r =>
    match c.find? (isName lower · sec) with
    | none => .invalidPrefix
    | some s =>
      -- (go-git takes the first section of that name)
      let hasSub := s.subs.any (·.name == r)
      let hasOpt := s.options.any (fun o => lower o.1 == lower r)
      if hasSub || hasOpt then
        let s' : Section := { s with subs := s.subs.filter (·.name != r), options := s.options.filter (fun o => lower o.1 != lower r) }
        .ok (c.map fun x => if x == s then s' else x)
      else .invalidPrefix

end GitBugModel.Config

/-
Second, finer model of `cache/subcache.go` + `cache/cached.go` for C11: entities are operation
lists, a loaded instance has a committed part and a *staging area* (operations added through the
cache and not committed yet), and the excerpt file on disk is distinguished from the excerpt map
in memory.

What the code does, as modelled:
* every edit through a loaded instance (`BugCache.AddComment`, `SetTitle`, …) appends to the
  staging area and calls `notifyUpdated` → `SubCache.entityUpdated`: the excerpt in memory, the
  index document and the excerpt *file* are rewritten from the instance *including* its staged
  operations;
* `Commit` stores committed ++ staged under the ref and empties the staging area (and notifies);
* `MergeAll` replaces the loaded instance by the merged entity;
* `evictIfNeeded` skips instances that need a commit;
* `Close` forgets the loaded instances (their staged operations are lost); since the repair in
  /repo it removes the excerpt file when some instance still had staged operations, so that the
  next `NewRepoCache` rebuilds; `closePinned` is the behaviour before the repair;
* opening = `Load` (excerpt file present and as many index documents as excerpts) or `Build`.
Core Lean only.
-/
namespace GitBugModel.CacheStaged

abbrev Map (α : Type) := String → Option α

def upd {α : Type} (m : Map α) (k : String) (v : Option α) : Map α := fun x => if x = k then v else m x

structure Loaded (Op : Type) where
  committed : List Op
  staged : List Op

def Loaded.all {Op : Type} (l : Loaded Op) : List Op := l.committed ++ l.staged

structure St (Op : Type) where
  repo : Map (List Op)            -- local refs: the operations `Read` returns for each id
  excerpts : Map (List Op)        -- in memory: the operations each excerpt was made from
  file : Option (Map (List Op))   -- the excerpt file on disk (`none`: no file)
  index : Map (List Op)           -- the search index on disk
  loaded : Map (Loaded Op)
  ids : List String               -- every id ever used (finite support)

inductive Act (Op : Type) where
  | new (id : String) (ops : List Op)      -- New…: created and committed at once
  | stage (id : String) (op : Op)          -- an edit through the loaded instance, not committed
  | commit (id : String)                   -- Commit / CommitAsNeeded
  | merged (id : String) (ops : List Op)   -- MergeAll reports new/updated with this entity
  | remove (id : String)
  | evict (id : String)
  | resolve (id : String)
  | reopen                                 -- Close, then NewRepoCache

/-- `entityUpdated` / `add`: excerpt, index document and excerpt file follow the instance -/
def publish {Op : Type} (s : St Op) (id : String) (v : Option (List Op)) : St Op :=
  let ex := upd s.excerpts id v
  { s with excerpts := ex, index := upd s.index id v, file := some ex }

/-- the common shape of the actions that change one entity: its ref, its loaded instance, and
what is published about it -/
def install {Op : Type} (s : St Op) (id : String) (r : Option (List Op)) (l : Option (Loaded Op))
    (v : Option (List Op)) (ids' : List String) : St Op :=
  publish { s with repo := upd s.repo id r, loaded := upd s.loaded id l, ids := ids' } id v

def count {α : Type} (m : Map α) (ids : List String) : Nat := (ids.eraseDups.filter (fun i => (m i).isSome)).length

/-- `Build` -/
def rebuild {Op : Type} (repo : Map (List Op)) (ids : List String) : St Op :=
  { repo := repo, excerpts := repo, file := some repo, index := repo,
    loaded := fun id => (repo id).map (fun c => ⟨c, []⟩), ids := ids }

/-- does some loaded instance hold operations that were never committed? -/
def dirty {Op : Type} (s : St Op) : Bool :=
  s.ids.any fun i => match s.loaded i with
    | some l => !l.staged.isEmpty
    | none => false

/-- `NewRepoCache` on what the previous process left -/
def openFrom {Op : Type} (s : St Op) (file : Option (Map (List Op))) : St Op :=
  match file with
  | some f =>
    if count s.index s.ids = count f s.ids then { s with excerpts := f, file := some f, loaded := fun _ => none }
    else rebuild s.repo s.ids
  | none => rebuild s.repo s.ids

/-- `Close` (repaired): the excerpt file is removed when uncommitted operations are being lost -/
def close {Op : Type} (s : St Op) : Option (Map (List Op)) := if dirty s then none else s.file

/-- `Close` before the repair: the file stays whatever it describes -/
def closePinned {Op : Type} (s : St Op) : Option (Map (List Op)) := s.file

def step {Op : Type} (s : St Op) : Act Op → St Op
  | .new id ops => install s id (some ops) (some ⟨ops, []⟩) (some ops) (id :: s.ids)
  | .stage id op =>
    match s.loaded id with
    | some l => install s id (s.repo id) (some ⟨l.committed, l.staged ++ [op]⟩) (some (l.committed ++ (l.staged ++ [op]))) s.ids
    | none => s
  | .commit id =>
    match s.loaded id with
    | some l => install s id (some l.all) (some ⟨l.all, []⟩) (some l.all) s.ids
    | none => s
  | .merged id ops => install s id (some ops) (some ⟨ops, []⟩) (some ops) (id :: s.ids)
  | .remove id => install s id none none none s.ids
  | .evict id =>
    match s.loaded id with
    | some l => if l.staged.isEmpty then { s with loaded := upd s.loaded id none } else s
    | none => s
  | .resolve id =>
    match s.loaded id with
    | some _ => s
    | none => { s with loaded := upd s.loaded id ((s.repo id).map fun c => ⟨c, []⟩), ids := id :: s.ids }
  | .reopen => openFrom s (close s)

/-- the same session step with the `Close` of the pinned tree -/
def stepPinned {Op : Type} (s : St Op) : Act Op → St Op
  | .reopen => openFrom s (closePinned s)
  | a => step s a

/-- what the cache serves: the listing, the index content, and what resolving an id shows
(the loaded instance with its staged operations, else what git holds) -/
structure Served (Op : Type) where
  excerpts : Map (List Op)
  index : Map (List Op)
  resolved : Map (List Op)

def served {Op : Type} (s : St Op) : Served Op :=
  { excerpts := s.excerpts, index := s.index,
    resolved := fun id => match s.loaded id with | some l => some l.all | none => s.repo id }

end GitBugModel.CacheStaged

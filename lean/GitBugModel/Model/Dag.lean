/-
Model of `entity/dag/entity.go` (`read`) and `entity/dag/entity_actions.go` (`merge`).
Core Lean only.

The git object store is a list of commits (content-addressed, append-only); a commit carries
the result of decoding its tree into an operation pack (`readOperationPack`), supplied by the
environment: hashes, pack ids (SHA-256 of the blob) and operation ids are opaque strings.
-/
namespace GitBugModel.Dag

inductive Err where
  | notFound | missingCommit | multipleRoots | decode | invalidPack | mergeWithOps
  | noCreateTime | clockOrder | clockJump | fuel | noOps
deriving DecidableEq, Repr, Inhabited

/-- An operation as the DAG layer sees it. -/
structure OpTok where
  id : String
  kind : Nat := 0       -- operation type number (1 = create)
  valid : Bool := true  -- `op.Validate()`
deriving DecidableEq, Repr, Inhabited

structure Pack where
  id : String
  author : String
  ops : List OpTok
  create : Nat
  edit : Nat
  authorsOk : Bool := true   -- every operation carries the pack's author (`opp.Validate`)
deriving DecidableEq, Repr, Inhabited

structure Commit where
  hash : String
  parents : List String
  /-- `readOperationPack` on this commit: the pack, or the class of the decoding error -/
  pack : Except Err Pack
deriving Repr, Inhabited

abbrev Store := List Commit

def lookup (s : Store) (h : String) : Option Commit := s.find? (fun c => c.hash == h)

/-- parents not yet visited, each once, in order (the `visited` map test of the BFS) -/
def newParents (ps visited : List String) : List String :=
  ps.foldl (fun acc p => if visited.contains p || acc.contains p then acc else acc ++ [p]) []

/-- The breadth-first collection of `read` (queue, visited set, `BFSOrder`). -/
def bfs (s : Store) : (fuel : Nat) → (queue visited : List String) → (acc : List Commit) → Except Err (List Commit)
  | _, [], _, acc => .ok acc.reverse
  | 0, _ :: _, _, _ => .error .fuel
  | fuel+1, h :: q, visited, acc =>
    match lookup s h with
    | none => .error .missingCommit
    | some c =>
      let np := newParents c.parents visited
      bfs s fuel (q ++ np) (visited ++ np) (c :: acc)

def hopLimit : Nat := 1000000

/-- `opp.Validate()` -/
def Pack.validate (p : Pack) : Bool := p.authorsOk && p.edit != 0

/-- The checks of the first pass on one commit; `rootsSoFar` counts the parentless commits
seen up to and including this one. -/
def checkCommit (c : Commit) (rootsSoFar : Nat) : Except Err Pack :=
  if c.parents.isEmpty && rootsSoFar > 1 then .error .multipleRoots else
  match c.pack with
  | .error e => .error e
  | .ok p =>
    if !p.validate then .error .invalidPack
    else if c.parents.length > 1 && !p.ops.isEmpty then .error .mergeWithOps
    else if c.parents.isEmpty && p.create == 0 then .error .noCreateTime
    else .ok p

/-- First pass of `read` over the commits in BFS order: single root, pack decodes and
validates, merge commits are empty, the root has a creation time.  Returns hash ↦ pack. -/
def pass1 : (order : List Commit) → (roots : Nat) → Except Err (List (String × Pack))
  | [], _ => .ok []
  | c :: rest, roots =>
    let roots' := if c.parents.isEmpty then roots + 1 else roots
    match checkCommit c roots' with
    | .error e => .error e
    | .ok p =>
      match pass1 rest roots' with
      | .error e => .error e
      | .ok m => .ok ((c.hash, p) :: m)

def packOf (m : List (String × Pack)) (h : String) : Option Pack := (m.find? (fun x => x.1 == h)).map (·.2)

/-- Check of one edge (child pack `p`, parent hash `ph`). -/
def checkEdge (m : List (String × Pack)) (isMerge : Bool) (p : Pack) (ph : String) : Except Err Unit :=
  match packOf m ph with
  | none => .error .missingCommit   -- unreachable: the BFS visited every ancestor
  | some pp =>
    if pp.edit ≥ p.edit then .error .clockOrder
    else if !isMerge && p.edit - pp.edit > hopLimit then .error .clockJump
    else .ok ()

def checkEdges (m : List (String × Pack)) (isMerge : Bool) (p : Pack) : List String → Except Err Unit
  | [] => .ok ()
  | ph :: rest => match checkEdge m isMerge p ph with
    | .error e => .error e
    | .ok () => checkEdges m isMerge p rest

/-- Second pass: clocks against the parents. -/
def pass2 (m : List (String × Pack)) : List Commit → Except Err Unit
  | [] => .ok ()
  | c :: rest =>
    match packOf m c.hash with
    | none => .error .missingCommit
    | some p => match checkEdges m (c.parents.length > 1) p c.parents with
      | .error e => .error e
      | .ok () => pass2 m rest

/-- the comparator of `sort.Slice` in `read` -/
def packLt (a b : Pack) : Bool := a.edit < b.edit || (a.edit == b.edit && a.id < b.id)

def insertPack (x : Pack) : List Pack → List Pack
  | [] => [x]
  | y :: ys => if packLt x y then x :: y :: ys else y :: insertPack x ys

def sortPacks (l : List Pack) : List Pack := l.foldr insertPack []

/-- operations of an entity from its packs: sort by (edit time, pack id), concatenate -/
def opsOf (packs : List Pack) : List OpTok := (sortPacks packs).flatMap (·.ops)

structure Entity where
  ops : List OpTok
  lastCommit : String
  createTime : Nat
  editTime : Nat
  packs : List Pack        -- everything `read` witnesses
deriving Repr

def maxOf (l : List Nat) : Nat := l.foldl max 0

/-- the entity made of the packs collected: an entity is identified by its first operation, a
history without any operation is refused -/
def mkEntity (packs : List Pack) (head : String) : Except Err Entity :=
  if (opsOf packs).isEmpty then .error .noOps
  else .ok { ops := opsOf packs, lastCommit := head,
             createTime := maxOf (packs.map (·.create)), editTime := maxOf (packs.map (·.edit)),
             packs := packs }

/-- `read` at a given head commit. -/
def read (s : Store) (head : String) : Except Err Entity :=
  match bfs s (s.length + 1) [head] [head] [] with
  | .error e => .error e
  | .ok order =>
    match pass1 order 0 with
    | .error e => .error e
    | .ok m =>
      match pass2 m order with
      | .error e => .error e
      | .ok () => mkEntity (m.map (·.2)) head

/-- `Entity.Validate` + `Bug.Validate` as far as the DAG layer can tell. -/
def entityValid (ops : List OpTok) : Bool :=
  !ops.isEmpty && ops.all (·.valid) && (ops.map (·.id)).eraseDups.length == ops.length &&
  (match ops with
   | o :: rest => o.kind == 1 && rest.all (fun x => x.kind != 1)
   | [] => false)

/-- `repo.ListCommits(ref)`: every commit reachable from the head (as a set). -/
def reach (s : Store) (head : String) : List String :=
  match bfs s (s.length + 1) [head] [head] [] with
  | .ok order => order.map (·.hash)
  | .error _ => []

inductive Status where
  | new | nothing | updated | invalid | error
deriving DecidableEq, Repr

structure MergeOut where
  status : Status
  /-- new value of the local ref (unchanged ⇒ the old one) -/
  localHead : Option String
  /-- parents and edit time of the merge commit, when one is created -/
  mergeCommit : Option (List String × Nat) := none
  /-- operations of the entity handed back with new/updated -/
  entityOps : List OpTok := []
  /-- edit clock after the call -/
  clockEdit : Nat
  clockCreate : Nat
deriving Repr

def mkMergeCommit (nh l rh mp au : String) (e : Nat) : Commit :=
  { hash := nh, parents := [l, rh], pack := .ok { id := mp, author := au, ops := [], create := 0, edit := e } }

/-- Scenario 5: both sides have new commits.  Read the local entity (witnessing its clocks),
write an empty pack at `Increment(edit clock)` with parents (local, remote), move the ref, and
hand back the entity read at the new head. -/
def mergeDiverged (s : Store) (l rh : String) (ce cc : Nat) (nh mp au : String) : MergeOut :=
  match read s l with
  | .error _ => { status := .error, localHead := some l, clockEdit := ce, clockCreate := cc }
  | .ok le =>
    let e := max ce (maxOf (le.packs.map (·.edit))) + 1
    let cc2 := max cc (maxOf (le.packs.map (·.create)))
    match read (s ++ [mkMergeCommit nh l rh mp au e]) nh with
    | .error _ => { status := .error, localHead := some nh, mergeCommit := some ([l, rh], e),
                    clockEdit := e, clockCreate := cc2 }
    | .ok me => { status := .updated, localHead := some nh, mergeCommit := some ([l, rh], e),
                  entityOps := me.ops, clockEdit := e, clockCreate := cc2 }

/-- Scenarios 2–5: the entity exists locally at head `l`; `re` is the remote entity. -/
def mergeExisting (s : Store) (re : Entity) (l rh : String) (ce cc : Nat) (nh mp au : String) : MergeOut :=
  if l == rh then { status := .nothing, localHead := some l, clockEdit := ce, clockCreate := cc }
  else if (reach s l).contains rh then { status := .nothing, localHead := some l, clockEdit := ce, clockCreate := cc }
  else if (reach s rh).contains l then
    { status := .updated, localHead := some rh, entityOps := re.ops, clockEdit := ce, clockCreate := cc }
  -- the two histories must share a commit (their root), else joining them gives two roots
  else if !(reach s l).any (fun h => (reach s rh).contains h) then
    { status := .invalid, localHead := some l, clockEdit := ce, clockCreate := cc }
  else mergeDiverged s l rh ce cc nh mp au

/-- `dag.merge` for one remote ref named after `refId`.  `nh`, `mp` and `au` are what the
environment gives to the merge commit if one is written (its hash, its pack id, the merge author). -/
def merge (s : Store) (refId : String) (localHead : Option String) (rh : String) (ce cc : Nat) (nh mp au : String) : MergeOut :=
  match read s rh with
  | .error _ => { status := .invalid, localHead := localHead, clockEdit := ce, clockCreate := cc }
  | .ok re =>
    -- reading the remote entity witnessed all its clocks
    let ce1 := max ce (maxOf (re.packs.map (·.edit)))
    let cc1 := max cc (maxOf (re.packs.map (·.create)))
    if !entityValid re.ops then { status := .invalid, localHead := localHead, clockEdit := ce1, clockCreate := cc1 }
    -- the name of the ref must be the id of the entity (the id of its first operation)
    else if re.ops.head?.map (·.id) != some refId then
      { status := .invalid, localHead := localHead, clockEdit := ce1, clockCreate := cc1 }
    else match localHead with
      | none => { status := .new, localHead := some rh, entityOps := re.ops, clockEdit := ce1, clockCreate := cc1 }
      | some l => mergeExisting s re l rh ce1 cc1 nh mp au

end GitBugModel.Dag

import GitBugModel.Model.RWLock
/-
Goroutines as straight-line programs over read-write mutexes, stepping a configuration of
`GitBugModel.RWLock`.  This is the layer between the lock requests found in the source
(`Gen/LockNest`: which method asks for which mutex while holding which) and the configurations
`deadlock_free` speaks about: every run of programs that acquire in increasing order and release
what they took only reaches well-formed configurations.  Core Lean only.
-/
namespace GitBugModel.RWProg
open GitBugModel.RWLock

inductive Instr where
  | rlock (m : Nat)
  | runlock (m : Nat)
  | lock (m : Nat)
  | unlock (m : Nat)
  | work                 -- anything that touches no mutex
deriving DecidableEq, Repr

/-- what a goroutine holds: (mutex, as writer) -/
abbrev Held := List (Nat × Bool)

/-- a program is safe from a set of held mutexes when it asks only for mutexes larger than all it
holds, releases only what it holds, and has released everything when it returns -/
def Safe : Held → List Instr → Prop
  | h, [] => h = []
  | h, .work :: r => Safe h r
  | h, .rlock m :: r => (∀ x ∈ h, x.1 < m) ∧ Safe ((m, false) :: h) r
  | h, .lock m :: r => (∀ x ∈ h, x.1 < m) ∧ Safe ((m, true) :: h) r
  | h, .runlock m :: r => (m, false) ∈ h ∧ Safe (h.erase (m, false)) r
  | h, .unlock m :: r => (m, true) ∈ h ∧ Safe (h.erase (m, true)) r

structure PState where
  conf : Conf
  rest : Nat → List Instr     -- what each goroutine still has to execute (head: the current instruction)
  held : Nat → Held           -- ghost: what each goroutine holds

def updF {α : Type} (f : Nat → α) (k : Nat) (v : α) : Nat → α := fun x => if x = k then v else f x

def setSt (c : Conf) (t : Nat) (s : Status) : Conf := { c with st := updF c.st t s }
def setMx (c : Conf) (m : Nat) (x : Mutex) : Conf := { c with mx := updF c.mx m x }

/-- the read lock on `m` is granted to `t`, which goes on with `r` -/
def grantR (s : PState) (t m : Nat) (r : List Instr) : PState :=
  let c := s.conf
  { conf := setSt (setMx c m { c.mx m with readers := t :: (c.mx m).readers }) t .running,
    rest := updF s.rest t r, held := updF s.held t ((m, false) :: s.held t) }

/-- the write lock on `m` is granted to `t` (the head of the queue, or nobody was queued) -/
def grantW (s : PState) (t m : Nat) (r : List Instr) : PState :=
  let c := s.conf
  { conf := setSt (setMx c m { c.mx m with writer := some t, pending := (c.mx m).pending.tail }) t .running,
    rest := updF s.rest t r, held := updF s.held t ((m, true) :: s.held t) }

def blockR (s : PState) (t m : Nat) : PState := { s with conf := setSt s.conf t (.waitR m) }

def blockW (s : PState) (t m : Nat) : PState :=
  let c := s.conf
  { s with conf := setSt (setMx c m { c.mx m with pending := (c.mx m).pending ++ [t] }) t (.waitW m) }

def relR (s : PState) (t m : Nat) (r : List Instr) : PState :=
  let c := s.conf
  { conf := setMx c m { c.mx m with readers := (c.mx m).readers.erase t },
    rest := updF s.rest t r, held := updF s.held t ((s.held t).erase (m, false)) }

def relW (s : PState) (t m : Nat) (r : List Instr) : PState :=
  let c := s.conf
  { conf := setMx c m { c.mx m with writer := none },
    rest := updF s.rest t r, held := updF s.held t ((s.held t).erase (m, true)) }

def skip (s : PState) (t : Nat) (r : List Instr) : PState := { s with rest := updF s.rest t r }

def finish (s : PState) (t : Nat) : PState := { s with conf := setSt s.conf t .done }

/-- goroutine `t` takes its next step (callers check `enabled`) -/
def pstep (s : PState) (t : Nat) : PState :=
  let c := s.conf
  match c.st t with
  | .done => s
  | .waitR m => grantR s t m (s.rest t).tail
  | .waitW m => grantW s t m (s.rest t).tail
  | .running =>
    match s.rest t with
    | [] => finish s t
    | .work :: r => skip s t r
    | .rlock m :: r =>
      if (c.mx m).writer.isNone && (c.mx m).pending.isEmpty then grantR s t m r else blockR s t m
    | .lock m :: r =>
      if (c.mx m).writer.isNone && (c.mx m).readers.isEmpty && (c.mx m).pending.isEmpty then grantW s t m r
      else blockW s t m
    | .runlock m :: r => relR s t m r
    | .unlock m :: r => relW s t m r

/-- a schedule: goroutine ids; a goroutine that cannot move when its turn comes is skipped -/
def run (s : PState) : List Nat → PState
  | [] => s
  | t :: ts => run (if t ∈ s.conf.tids ∧ enabled s.conf t = true then pstep s t else s) ts

/-- `n` goroutines about to start their programs, no mutex taken -/
def init (progs : List (List Instr)) : PState :=
  { conf := { mx := fun _ => {}, st := fun t => if t < progs.length then .running else .done, tids := List.range progs.length },
    rest := fun t => progs.getD t [], held := fun _ => [] }

end GitBugModel.RWProg

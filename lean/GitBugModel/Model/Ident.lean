/-
Model of the author/committer line of the commits git-bug writes (`GoGitRepo.StoreSignedCommit` in
`repository/gogit.go`: `cleanIdent` applied to `author.name`, `author.email`, `committer.name`,
`committer.email` of the configuration; go-git then writes `name <email> seconds zone`), and of
what `git fsck` demands of such a line (`fsck_ident` in git's fsck.c).  Core Lean only.
-/
namespace GitBugModel.Ident

/-- git's "crud" (ident.c): what is trimmed off both ends of a name or an email -/
def isCrud (c : Char) : Bool :=
  c.toNat ≤ 32 || c == '.' || c == ',' || c == ':' || c == ';' || c == '<' || c == '>' || c == '"' || c == '\\' || c == '\''

/-- characters that end a field in `fsck_ident`'s scan (`strcspn(p, "<>\n")`) -/
def isSpecial (c : Char) : Bool := c == '<' || c == '>' || c == '\n'

/-- `cleanIdent`: trim the crud, drop '<', '>' and newlines wherever they are -/
def cleanIdent (s : List Char) : List Char :=
  (((s.dropWhile isCrud).reverse.dropWhile isCrud).reverse).filter (fun c => !isSpecial c)

/-- the line go-git writes after "author " / "committer " -/
def identLine (name email date : List Char) : List Char :=
  name ++ [' ', '<'] ++ email ++ ['>', ' '] ++ date

inductive FsckErr where
  | missingNameBeforeEmail | badName | missingEmail | missingSpaceBeforeEmail | badEmail
  | missingSpaceBeforeDate | badDate
deriving DecidableEq, Repr

/-- the date part: digits (not starting with a superfluous 0), a space, a sign, four digits -/
def dateOk (d : List Char) : Bool :=
  let secs := d.takeWhile Char.isDigit
  let rest := d.dropWhile Char.isDigit
  !secs.isEmpty && (secs.length == 1 || secs.head? != some '0') &&
  match rest with
  | [' ', sg, a, b, c, e] => (sg == '+' || sg == '-') && a.isDigit && b.isDigit && c.isDigit && e.isDigit
  | _ => false

/-- `fsck_ident` on the text after "author " (up to the end of the line) -/
def fsckIdent (line : List Char) : Option FsckErr :=
  if line.head? == some '<' then some .missingNameBeforeEmail else
  let name := line.takeWhile (fun c => !isSpecial c)
  let r1 := line.dropWhile (fun c => !isSpecial c)
  match r1 with
  | '>' :: _ => some .badName
  | '<' :: r2 =>
    if name.getLast? != some ' ' then some .missingSpaceBeforeEmail else
    let r3 := r2.dropWhile (fun c => !isSpecial c)
    match r3 with
    | '>' :: r4 =>
      match r4 with
      | ' ' :: date => if dateOk date then none else some .badDate
      | _ => some .missingSpaceBeforeDate
    | _ => some .badEmail
  | _ => some .missingEmail

end GitBugModel.Ident

/-
Model of `query/lexer.go`, `query/parser.go`, `cache/filter.go` (matcher) and the sorters of
`cache/bug_excerpt.go`, as used by `RepoCacheBug.Query`.  Core Lean only.

Environment functions: `isSpace` (unicode.IsSpace), `lower` (strings.ToLower), and the
full-text search engine (bleve) which contributes the candidate set when a query has search
terms.
-/
namespace GitBugModel.Query

/-! ## lexer -/

inductive LexErr where
  | unmatchedQuote | emptyQualifierOrValue | tooManySeparators
deriving DecidableEq, Repr

def isQuote (c : Char) : Bool := c == '"' || c == '\''

/-- state of `splitFunc`'s closure: (lastQuote, inQuote) -/
structure QState where
  lastQuote : Option Char := none
  inQuote : Bool := false
deriving DecidableEq, Repr

/-- `isChunk`: whether the rune belongs to a chunk, and the new quote state -/
def isChunk (sep : Char → Bool) (st : QState) (r : Char) : Bool × QState :=
  if !st.inQuote && isQuote r then (true, { lastQuote := some r, inQuote := true })
  else if st.inQuote && st.lastQuote == some r then (true, { lastQuote := none, inQuote := false })
  else if st.inQuote then (true, st)
  else (!sep r, st)

/-- the loop of `splitFunc`: (state, current chunk reversed, result reversed) -/
def splitLoop (sep : Char → Bool) : QState → List Char → List (List Char) → List Char → QState × List Char × List (List Char)
  | st, chunk, res, [] => (st, chunk, res)
  | st, chunk, res, r :: rest =>
    let (keep, st') := isChunk sep st r
    if keep then splitLoop sep st' (r :: chunk) res rest
    else if chunk.isEmpty then splitLoop sep st' [] res rest
    else splitLoop sep st' [] (chunk.reverse :: res) rest

/-- `splitFunc` -/
def splitFunc (sep : Char → Bool) (input : List Char) : Except LexErr (List (List Char)) :=
  let (st, chunk, res) := splitLoop sep {} [] [] input
  if st.inQuote then .error .unmatchedQuote
  else if chunk.isEmpty then .ok res.reverse else .ok (chunk.reverse :: res).reverse

/-- `removeQuote` -/
def removeQuote (field : List Char) : List Char :=
  match field with
  | r1 :: rest =>
    match rest.getLast? with
    | some r2 => if r1 == r2 && isQuote r1 then rest.dropLast else field
    | none => field
  | [] => field

inductive Token where
  | kv (q v : List Char)
  | kvv (q sub v : List Char)
  | search (term : List Char)
deriving DecidableEq, Repr

def tokenOfField (field : List Char) : Except LexErr Token :=
  match splitFunc (· == ':') field with
  | .error e => .error e
  | .ok chunks =>
    if field.head? == some ':' || field.getLast? == some ':' then .error .emptyQualifierOrValue
    else if chunks.any (·.isEmpty) then .error .emptyQualifierOrValue
    else match chunks.map removeQuote with
      | [a] => .ok (.search a)
      | [a, b] => .ok (.kv a b)
      | [a, b, c] => .ok (.kvv a b c)
      | _ => .error .tooManySeparators

def tokenizeFields : List (List Char) → Except LexErr (List Token)
  | [] => .ok []
  | f :: rest =>
    match tokenOfField f with
    | .error e => .error e
    | .ok t => match tokenizeFields rest with
      | .error e => .error e
      | .ok ts => .ok (t :: ts)

/-- `tokenize` -/
def tokenize (isSpace : Char → Bool) (input : List Char) : Except LexErr (List Token) :=
  match splitFunc isSpace input with
  | .error e => .error e
  | .ok fields => tokenizeFields fields

/-! ## parser -/

inductive ParseErr where
  | lex (e : LexErr) | unknownStatus | unknownNo | multipleSort | unknownSort | unknownQualifier
deriving DecidableEq, Repr

inductive OrderBy where | id | creation | edit
deriving DecidableEq, Repr
inductive Dir where | asc | desc
deriving DecidableEq, Repr

structure Query where
  search : List String := []
  status : List Nat := []            -- 1 open, 2 closed
  author : List String := []
  metadata : List (String × String) := []
  actor : List String := []
  participant : List String := []
  label : List String := []
  title : List String := []
  noLabel : Bool := false
  orderBy : OrderBy := .creation
  dir : Dir := .desc
deriving DecidableEq, Repr

/-- `common.StatusFromString` given the already lower-cased and trimmed value -/
def statusOf (cleaned : String) : Option Nat :=
  if cleaned == "open" then some 1 else if cleaned == "closed" then some 2 else none

def parseSorting (v : String) : Option (OrderBy × Dir) :=
  match v with
  | "id-desc" => some (.id, .desc)
  | "id" | "id-asc" => some (.id, .asc)
  | "creation" | "creation-desc" => some (.creation, .desc)
  | "creation-asc" => some (.creation, .asc)
  | "edit" | "edit-desc" => some (.edit, .desc)
  | "edit-asc" => some (.edit, .asc)
  | _ => none

/-- one iteration of `Parse`'s loop; `clean` is `strings.ToLower ∘ strings.TrimSpace` -/
def parseToken (clean : String → String) (st : Query × Bool) (t : Token) : Except ParseErr (Query × Bool) :=
  let (q, sortingDone) := st
  match t with
  | .search term => .ok ({ q with search := q.search ++ [String.ofList term] }, sortingDone)
  | .kvv qual sub v =>
    if String.ofList qual == "metadata" then
      .ok ({ q with metadata := q.metadata ++ [(String.ofList sub, String.ofList v)] }, sortingDone)
    else .error .unknownQualifier
  | .kv qual v =>
    let value := String.ofList v
    match String.ofList qual with
    | "status" | "state" =>
      match statusOf (clean value) with
      | some s => .ok ({ q with status := q.status ++ [s] }, sortingDone)
      | none => .error .unknownStatus
    | "author" => .ok ({ q with author := q.author ++ [value] }, sortingDone)
    | "actor" => .ok ({ q with actor := q.actor ++ [value] }, sortingDone)
    | "participant" => .ok ({ q with participant := q.participant ++ [value] }, sortingDone)
    | "label" => .ok ({ q with label := q.label ++ [value] }, sortingDone)
    | "title" => .ok ({ q with title := q.title ++ [value] }, sortingDone)
    | "no" => if value == "label" then .ok ({ q with noLabel := true }, sortingDone) else .error .unknownNo
    | "sort" =>
      if sortingDone then .error .multipleSort
      else match parseSorting value with
        | some (ob, d) => .ok ({ q with orderBy := ob, dir := d }, true)
        | none => .error .unknownSort
    | _ => .error .unknownQualifier

def parseTokens (clean : String → String) : Query × Bool → List Token → Except ParseErr Query
  | st, [] => .ok st.1
  | st, t :: rest =>
    match parseToken clean st t with
    | .error e => .error e
    | .ok st' => parseTokens clean st' rest

/-- `query.Parse` -/
def parse (isSpace : Char → Bool) (clean : String → String) (input : String) : Except ParseErr Query :=
  match tokenize isSpace input.toList with
  | .error e => .error (.lex e)
  | .ok ts => parseTokens clean ({}, false) ts

/-! ## matching and sorting -/

structure Ident where
  id : String
  nameLower : String     -- strings.ToLower(name)
  loginLower : String
deriving DecidableEq, Repr

structure Excerpt where
  id : String
  status : Nat
  labels : List String
  titleLower : String
  author : String               -- identity id
  actors : List String
  participants : List String
  createMetadata : List (String × String)
  createLamport : Nat
  createUnix : Int
  editLamport : Nat
  editUnix : Int
deriving DecidableEq, Repr

def isInfix (needle hay : List Char) : Bool :=
  match hay with
  | [] => needle.isEmpty
  | _ :: t => needle.isPrefixOf hay || isInfix needle t

def contains (hay needle : String) : Bool := isInfix needle.toList hay.toList

/-- `IdentityExcerpt.Match` with an already lower-cased query -/
def identMatch (i : Ident) (q : String) : Bool :=
  q.toList.isPrefixOf i.id.toList || contains i.nameLower q || contains i.loginLower q

def resolve (idents : List Ident) (id : String) : Option Ident := idents.find? (·.id == id)

def anyIdent (idents : List Ident) (ids : List String) (q : String) : Bool :=
  ids.any fun id => match resolve idents id with | some i => identMatch i q | none => false

def orMatch (fs : List Bool) : Bool := fs.isEmpty || fs.any id
def andMatch (fs : List Bool) : Bool := fs.all id

/-- `Matcher.Match`; `lower` is `strings.ToLower` -/
def matchesQ (lower : String → String) (idents : List Ident) (q : Query) (e : Excerpt) : Bool :=
  orMatch (q.status.map (· == e.status)) &&
  orMatch (q.author.map fun a => anyIdent idents [e.author] (lower a)) &&
  orMatch (q.metadata.map fun p => (e.createMetadata.find? (·.1 == p.1)).map (·.2) == some p.2) &&
  orMatch (q.participant.map fun a => anyIdent idents e.participants (lower a)) &&
  orMatch (q.actor.map fun a => anyIdent idents e.actors (lower a)) &&
  andMatch (q.label.map fun l => e.labels.contains l) &&
  andMatch (if q.noLabel then [e.labels.isEmpty] else []) &&
  andMatch (q.title.map fun t => contains e.titleLower (lower t))

/-- `Less` of the three sorters (Lamport time, then timestamp, then id: a total order on bugs
with distinct ids) -/
def less (ob : OrderBy) (a b : Excerpt) : Bool :=
  match ob with
  | .id => a.id < b.id
  | .creation => a.createLamport < b.createLamport ||
      (a.createLamport == b.createLamport && (a.createUnix < b.createUnix || (a.createUnix == b.createUnix && a.id < b.id)))
  | .edit => a.editLamport < b.editLamport ||
      (a.editLamport == b.editLamport && (a.editUnix < b.editUnix || (a.editUnix == b.editUnix && a.id < b.id)))

def insertBy (lt : Excerpt → Excerpt → Bool) (x : Excerpt) : List Excerpt → List Excerpt
  | [] => [x]
  | y :: ys => if lt x y then x :: y :: ys else y :: insertBy lt x ys

def sortBy (lt : Excerpt → Excerpt → Bool) (l : List Excerpt) : List Excerpt := l.foldr (insertBy lt) []

/-- `RepoCacheBug.Query` without search terms: filter, sort, direction.  (`sort.Reverse` swaps
the arguments of `Less`.) -/
def run (lower : String → String) (idents : List Ident) (q : Query) (pop : List Excerpt) : List String :=
  let filtered := pop.filter (matchesQ lower idents q)
  let lt := match q.dir with
    | .asc => less q.orderBy
    | .desc => fun a b => less q.orderBy b a
  (sortBy lt filtered).map (·.id)

end GitBugModel.Query

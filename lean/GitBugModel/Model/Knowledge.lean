/-
Knowledge-level model of replicas exchanging through one remote (`git bug push` / `git bug pull`):
what a replica knows of an entity is the set of commits its head reaches.  Core Lean only.
-/
namespace GitBugModel.Knowledge

/-- a set of commit hashes -/
abbrev KSet := String → Prop

structure Sys where
  remote : KSet
  reps : List KSet

/-- `pull i`: fetch and merge — the replica's head afterwards reaches what either side reached
(`Props.C01.merge_reach_*`) -/
def pull (σ : Sys) (i : Nat) : Sys :=
  { σ with reps := σ.reps.modify i (fun k => fun x => k x ∨ σ.remote x) }

/-- `push i`: the remote takes the replica's head; git accepts it only as a fast-forward, that is
when the replica already reaches everything the remote has (after a pull it does) -/
def push (σ : Sys) (i : Nat) : Sys :=
  match σ.reps[i]? with
  | some k => { σ with remote := fun x => σ.remote x ∨ k x }
  | none => σ

/-- everybody pulls then pushes, in turn -/
def passPullPush : Sys → List Nat → Sys
  | σ, [] => σ
  | σ, i :: rest => passPullPush (push (pull σ i) i) rest

def passPull : Sys → List Nat → Sys
  | σ, [] => σ
  | σ, i :: rest => passPull (pull σ i) rest

/-- everything anybody knows -/
def everything (σ : Sys) : KSet := fun x => σ.remote x ∨ ∃ k ∈ σ.reps, k x

end GitBugModel.Knowledge

/-
Model of `api/graphql/connections/connection_template.go` (`NameCon`) and of its seven
genny instances.  Core Lean only.

The Go function takes a source slice, an `edgeMaker` (which in every call site of
`api/graphql/resolvers` builds the edge's cursor as `OffsetToCursor(offset)`), and a
`ConnectionInput{After, Before *string; First, Last *int}`.

`enc : Nat → String` stands for `connections.OffsetToCursor`; the theorems quantify
over every `enc` (injective where needed).
-/
namespace GitBugModel.Conn

structure Input where
  after  : Option String := none
  before : Option String := none
  first  : Option Int := none
  last   : Option Int := none
deriving Repr, DecidableEq

structure Page (α : Type) where
  nodes   : List α
  cursors : List String
  hasNext : Bool
  hasPrev : Bool
  startCursor : String
  endCursor   : String
  total   : Nat
deriving Repr, DecidableEq

inductive Err | firstNegative | lastNegative
deriving Repr, DecidableEq

/-- Index of the first `i < n` with `enc i = c` (the `for i, value := range source` loop
with `break`), scanning offsets `base, base+1, …`. -/
def findCursor (enc : Nat → String) (c : String) : (n : Nat) → (base : Nat) → Option Nat
  | 0, _ => none
  | n+1, base => if enc base = c then some base else findCursor enc c n (base+1)

/-- State after the `After` block: (offset, hasPreviousPage). -/
def afterCut (enc : Nat → String) (n : Nat) (after : Option String) : Nat × Bool :=
  match after with
  | none => (0, false)
  | some c =>
    match findCursor enc c n 0 with
    | some i => (i+1, true)
    | none => (0, false)

/-- State after the `Before` block: (number of elements kept, hasNextPage).  `m` is the
length of the remaining source, `off` the offset of its first element. -/
def beforeCut (enc : Nat → String) (m off : Nat) (before : Option String) : Nat × Bool :=
  match before with
  | none => (m, false)
  | some c =>
    match findCursor enc c m off with
    | some j => (j - off, true)
    | none => (m, false)

/-- The `First` block on `(len, hasNext)`. -/
def firstCut (first : Option Int) (len : Nat) (hn : Bool) : Except Err (Nat × Bool) :=
  match first with
  | none => .ok (len, hn)
  | some f =>
    if f < 0 then .error Err.firstNegative
    else if len > f.toNat then .ok (f.toNat, true) else .ok (len, hn)

/-- The `Last` block on `(lo, len, hasPrev)`. -/
def lastCut (last : Option Int) (lo len : Nat) (hp : Bool) : Except Err (Nat × Nat × Bool) :=
  match last with
  | none => .ok (lo, len, hp)
  | some l =>
    if l < 0 then .error Err.lastNegative
    else if len > l.toNat then .ok (lo + (len - l.toNat), l.toNat, true) else .ok (lo, len, hp)

/-- The whole function, on offsets: returns `(lo, len, hasNext, hasPrev)` meaning that the
page is `source[lo, lo+len)`. -/
def window (enc : Nat → String) (n : Nat) (inp : Input) : Except Err (Nat × Nat × Bool × Bool) :=
  let ac := afterCut enc n inp.after
  let bc := beforeCut enc (n - ac.1) ac.1 inp.before
  match firstCut inp.first bc.1 bc.2 with
  | .error e => .error e
  | .ok fc =>
    match lastCut inp.last ac.1 fc.1 ac.2 with
    | .error e => .error e
    | .ok lc => .ok (lc.1, lc.2.1, fc.2, lc.2.2)

def mkPage {α : Type} (enc : Nat → String) (src : List α) (lo len : Nat) (hn hp : Bool) : Page α :=
  { nodes := (src.drop lo).take len
    cursors := (List.range len).map (fun i => enc (lo + i))
    hasNext := hn
    hasPrev := hp
    startCursor := ((List.range len).map (fun i => enc (lo + i))).head?.getD ""
    endCursor := ((List.range len).map (fun i => enc (lo + i))).getLast?.getD ""
    total := src.length }

def paginate {α : Type} (enc : Nat → String) (src : List α) (inp : Input) : Except Err (Page α) :=
  match window enc src.length inp with
  | .error e => .error e
  | .ok w => .ok (mkPage enc src w.1 w.2.1 w.2.2.1 w.2.2.2)

/-- A client walking forward with page size `k`: first page has no cursor, every next page
uses `after = endCursor`, until `hasNext = false`.  Fuel-indexed. -/
def walkForward {α : Type} (enc : Nat → String) (src : List α) (k : Nat) :
    (fuel : Nat) → (after : Option String) → Option (List α)
  | 0, _ => none
  | fuel+1, after =>
    match paginate enc src { after := after, first := some (k : Int) } with
    | .error _ => none
    | .ok p =>
      if p.hasNext then
        match walkForward enc src k fuel (some p.endCursor) with
        | some rest => some (p.nodes ++ rest)
        | none => none
      else some p.nodes

/-- Walking backward with `last k`, `before = startCursor`, until `hasPrev = false`;
pages are prepended. -/
def walkBackward {α : Type} (enc : Nat → String) (src : List α) (k : Nat) :
    (fuel : Nat) → (before : Option String) → Option (List α)
  | 0, _ => none
  | fuel+1, before =>
    match paginate enc src { before := before, last := some (k : Int) } with
    | .error _ => none
    | .ok p =>
      if p.hasPrev then
        match walkBackward enc src k fuel (some p.startCursor) with
        | some rest => some (rest ++ p.nodes)
        | none => none
      else some p.nodes

end GitBugModel.Conn

/-
Small-step model of `util/lamport/persisted_clock.go` under concurrency: several goroutines of one
process move one persisted clock.  An operation is the atomic change of the counter in memory
(`MemClock.Increment`/`Witness`) followed by `Write`, which renders the counter and renames a
temporary file over the clock file.

* repaired `Write` (a mutex around it, the counter read inside): one atomic step `file := counter`;
* pinned `Write`: two steps, `capture` (render the counter) and `rename` (the file takes the captured
  value), which goroutines interleave freely.
Core Lean only.
-/
namespace GitBugModel.ClockFile

structure St where
  counter : Nat
  file : Nat
  pending : List Nat            -- goroutines that changed the counter and have not written yet
  captured : Nat → Option Nat   -- pinned Write: the value a goroutine rendered and has not renamed yet

inductive Step where
  | bump (t : Nat)              -- the atomic change of the counter (an increment; a witness raises it too)
  | write (t : Nat)             -- repaired Write: under the mutex, file := counter
  | capture (t : Nat)           -- pinned Write, first half
  | rename (t : Nat)            -- pinned Write, second half

def step (s : St) : Step → St
  | .bump t => { s with counter := s.counter + 1, pending := t :: s.pending }
  | .write t => if t ∈ s.pending then { s with file := s.counter, pending := s.pending.erase t } else s
  | .capture t =>
    if t ∈ s.pending then { s with captured := fun x => if x = t then some s.counter else s.captured x } else s
  | .rename t =>
    match s.captured t with
    | some v => { s with file := v, pending := s.pending.erase t,
                         captured := fun x => if x = t then none else s.captured x }
    | none => s

def run (s : St) (l : List Step) : St := l.foldl step s

/-- only the repaired `Write` is used -/
def Repaired (l : List Step) : Prop := ∀ x ∈ l, match x with | .capture _ => False | .rename _ => False | _ => True

def init (c : Nat) : St := { counter := c, file := c, pending := [], captured := fun _ => none }

end GitBugModel.ClockFile

/-
Model of `util/lamport/{mem_clock,persisted_clock}.go` and of the clock table of
`repository/gogit.go` (`GetOrCreateClock`, `Increment`, `Witness`, reopening).  Core Lean only.

A clock file holds the decimal rendering of the counter; it is modelled by its parsed content
(`FileState`): absent, a value, or unparsable (empty / garbage).  A file truncated to a proper
non-empty prefix of its decimal digits holds `n / 10^j` (decimal arithmetic, validated by the
correspondence run on real files).
-/
namespace GitBugModel.Lamport

/-- `MemClock.Increment`: add one, return the new value. -/
def increment (c : Nat) : Nat × Nat := (c + 1, c + 1)

/-- `MemClock.Witness`: move up to `v` if it is ahead (the CAS loop, sequentially). -/
def witness (c v : Nat) : Nat := if v ≤ c then c else v

inductive FileState where
  | absent
  | value (n : Nat)
  | garbage          -- empty or unparsable content
deriving DecidableEq, Repr

/-- One named clock of a repository: in-memory counter (if loaded) and its file. -/
structure PClock where
  mem : Option Nat
  file : FileState
deriving DecidableEq, Repr

inductive Res where
  | ok (v : Nat)
  | err          -- the clock file exists but cannot be read
deriving DecidableEq, Repr

/-- `GetOrCreateClock`: memory, else file, else a new clock at 1 (written at once). -/
def getOrCreate (c : PClock) : Option PClock :=
  match c.mem with
  | some _ => some c
  | none =>
    match c.file with
    | .value n => some { c with mem := some n }
    | .absent => some { mem := some 1, file := .value 1 }
    | .garbage => none

inductive Op where
  | inc | wit (v : Nat) | time | reopen | delete | truncate (j : Nat)
deriving DecidableEq, Repr

/-- one operation on one named clock; returns the new state and what the caller observes -/
def step (c : PClock) : Op → PClock × Res
  | .inc =>
    match getOrCreate c with
    | none => (c, .err)
    | some c' =>
      let n := c'.mem.getD 0 + 1
      ({ mem := some n, file := .value n }, .ok n)
  | .wit v =>
    match getOrCreate c with
    | none => (c, .err)
    | some c' =>
      let n := witness (c'.mem.getD 0) v
      ({ mem := some n, file := .value n }, .ok n)     -- Witness always rewrites the file
  | .time =>
    match getOrCreate c with
    | none => (c, .err)
    | some c' => (c', .ok (c'.mem.getD 0))
  | .reopen => ({ c with mem := none }, .ok 0)          -- process restart: memory is lost
  | .delete => ({ mem := none, file := .absent }, .ok 0) -- clock file deleted (and restart)
  | .truncate j =>                                       -- torn write (and restart): drop the last j digits
    match c.file with
    | .value n => ({ mem := none, file := if n / 10 ^ j = 0 then .garbage else .value (n / 10 ^ j) }, .ok 0)
    | f => ({ mem := none, file := f }, .ok 0)

def run (c : PClock) : List Op → PClock × List Res
  | [] => (c, [])
  | o :: rest =>
    let (c', r) := step c o
    let (c'', rs) := run c' rest
    (c'', r :: rs)

/-- the value a clock currently stands for (memory if loaded, else file) -/
def current (c : PClock) : Nat :=
  match c.mem with
  | some n => n
  | none => match c.file with | .value n => n | _ => 0

end GitBugModel.Lamport

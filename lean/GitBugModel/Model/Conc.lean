/-
Model of concurrent use of one cache (`cache/subcache.go`, `cache/cached.go`, `cache/bug_cache.go`)
at the granularity of the critical sections.  Core Lean only.
-/
namespace GitBugModel.Conc

/-! ## edits of one loaded entity: append and commit under the entity's lock -/

/-- the next operation of worker `i`, and the programs without it -/
def takeNext (progs : List (List String)) (i : Nat) : Option (String × List (List String)) :=
  match progs[i]? with
  | some (op :: rest) => some (op, progs.set i rest)
  | _ => none

/-- one critical section per schedule entry: worker `i` appends its next operation to the single
loaded instance and commits it (the stored list is the instance's list) -/
def runLocked : (progs : List (List String)) → (sched : List Nat) → (stored : List String) → List String × List (List String)
  | progs, [], stored => (stored, progs)
  | progs, i :: rest, stored =>
    match takeNext progs i with
    | some (op, progs') => runLocked progs' rest (stored ++ [op])
    | none => runLocked progs rest stored

/-! ## two loaded instances of the same entity (what a double load produces) -/

structure TwoInst where
  inst1 : List String
  inst2 : List String
  ref : List String      -- what the entity's ref points at

/-- worker on instance 1 / 2 appends `op` and commits: the ref is overwritten with that instance's list -/
def editOn (s : TwoInst) (which : Bool) (op : String) : TwoInst :=
  if which then { s with inst1 := s.inst1 ++ [op], ref := s.inst1 ++ [op] }
  else { s with inst2 := s.inst2 ++ [op], ref := s.inst2 ++ [op] }

/-! ## `Resolve` of an entity that is not loaded yet -/

inductive RPC where
  | start | missed | built (inst : Nat) | done (inst : Nat)
deriving DecidableEq, Repr

structure RState where
  cached : Option Nat       -- the instance in the `cached` map
  pcs : List RPC
deriving DecidableEq, Repr

def rpc (s : RState) (i : Nat) : RPC := s.pcs.getD i .start

/-- one step of worker `i`; `recheck`: is the map looked at again under the write lock before the
freshly built instance is stored (false on the pinned tree)?  Worker `i` builds instance `i`. -/
def rstep (recheck : Bool) (s : RState) (i : Nat) : RState :=
  match rpc s i with
  | .start =>
    match s.cached with
    | some k => { s with pcs := s.pcs.set i (.done k) }      -- read lock: hit
    | none => { s with pcs := s.pcs.set i .missed }           -- read lock: miss
  | .missed => { s with pcs := s.pcs.set i (.built i) }       -- read from git, no lock held
  | .built k =>                                                -- write lock
    match s.cached with
    | some j => if recheck then { s with pcs := s.pcs.set i (.done j) }
                else { cached := some k, pcs := s.pcs.set i (.done k) }
    | none => { cached := some k, pcs := s.pcs.set i (.done k) }
  | .done _ => s

def rrun (recheck : Bool) (s : RState) (sched : List Nat) : RState := sched.foldl (rstep recheck) s

def rinit (n : Nat) : RState := { cached := none, pcs := List.replicate n .start }

/-- instances handed out so far -/
def handed (s : RState) : List Nat := s.pcs.filterMap (fun pc => match pc with | .done k => some k | _ => none)

/-! ## what a finished run must look like: an interleaving of the workers' acknowledged operations -/

/-- is `stored` an interleaving of the lists `progs` (each kept in order, nothing else)? -/
def isInterleaving : (stored : List String) → (progs : List (List String)) → (fuel : Nat) → Bool
  | [], progs, _ => progs.all (·.isEmpty)
  | _ :: _, _, 0 => false
  | x :: rest, progs, fuel + 1 =>
    -- the first worker whose next operation is x takes it (operation ids are distinct)
    match (List.range progs.length).find? (fun i => (progs[i]?.bind (·.head?)) == some x) with
    | some i => isInterleaving rest (progs.set i ((progs[i]?.getD []).tail)) fuel
    | none => false

end GitBugModel.Conc

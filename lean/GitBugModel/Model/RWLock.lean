/-
Model of the blocking behaviour of Go's `sync.RWMutex` as the cache uses it
(`cache/subcache.go`: `SubCache.mu`; `cache/cached.go`: `CachedEntityBase.mu`;
`cache/with_snapshot.go`: `withSnapshot.mu`).  Core Lean only.

A mutex is held by any number of readers or by one writer.  It is not re-entrant.  A writer
that called `Lock` announces itself first (`pending`); from then on new `RLock` calls wait
(writer preference), and the writer proceeds once the readers that were in have left.

A configuration records, for every goroutine, whether it can take a step by itself
(`running`: it is computing, releasing a mutex, or about to call something), waits for a read
lock, waits for a write lock, or has returned.
-/
namespace GitBugModel.RWLock

structure Mutex where
  readers : List Nat := []        -- goroutines inside RLock … RUnlock (one entry per RLock)
  writer  : Option Nat := none    -- goroutine inside Lock … Unlock
  pending : List Nat := []        -- goroutines that called Lock and wait, in arrival order
deriving DecidableEq, Repr

inductive Status where
  | running
  | waitR (m : Nat)     -- blocked in m.RLock()
  | waitW (m : Nat)     -- blocked in m.Lock()
  | done
deriving DecidableEq, Repr

structure Conf where
  mx : Nat → Mutex
  st : Nat → Status
  tids : List Nat

def holders (c : Conf) (m : Nat) : List Nat := (c.mx m).readers ++ (c.mx m).writer.toList

/-- can goroutine `t` take its next step? -/
def enabled (c : Conf) (t : Nat) : Bool :=
  match c.st t with
  | .running => true
  | .waitR m => (c.mx m).writer.isNone && (c.mx m).pending.isEmpty
  | .waitW m => (c.mx m).writer.isNone && (c.mx m).readers.isEmpty && (c.mx m).pending.head? == some t
  | .done => false

/-- the mutex a blocked goroutine asks for -/
def request (s : Status) : Option Nat :=
  match s with
  | .waitR m => some m
  | .waitW m => some m
  | _ => none

/-- what every run of goroutines that release what they take, before they return, maintains;
plus the lock order: a goroutine asks for a mutex only while everything it holds is smaller. -/
structure WF (c : Conf) : Prop where
  holders_live : ∀ m t, t ∈ holders c m → t ∈ c.tids ∧ c.st t ≠ .done
  pending_iff : ∀ m t, t ∈ (c.mx m).pending ↔ (t ∈ c.tids ∧ c.st t = .waitW m)
  ordered : ∀ t m, request (c.st t) = some m → ∀ m', t ∈ holders c m' → m' < m

def deadlocked (c : Conf) : Bool :=
  c.tids.any (fun t => c.st t != .done) && c.tids.all (fun t => !enabled c t)

end GitBugModel.RWLock

/-
Model of the coherence-relevant state of `cache/subcache.go`: what git holds (`repo`: the entity
each local ref reads as), the excerpt map, the search index and the loaded instances, and the
actions that change them (`add`, commit through a loaded instance, the interception of merge
results in `SubCache.MergeAll`, `Remove`, eviction, `Resolve`, close + reopen with the
load-or-rebuild heuristic of `Load`).  Core Lean only.

An entity is an abstract value `E` (its operation list); excerpt and index document of an entity
are functions of it (`makeExcerpt`, `makeIndexData`), so a map "id ↦ the entity it was derived
from" stands for both.  Maps are functions on ids; `ids` lists the ids ever used (finite support,
needed by the document-count heuristic).
-/
namespace GitBugModel.Cache

abbrev Map (E : Type) := String → Option E

def upd {E : Type} (m : Map E) (k : String) (v : Option E) : Map E := fun x => if x = k then v else m x

structure St (E : Type) where
  repo : Map E        -- local refs: what `Read` returns for each id
  excerpts : Map E
  index : Map E
  loaded : Map E
  ids : List String

inductive Act (E : Type) where
  | new (id : String) (e : E)                 -- New + Commit: ref written, instance loaded, excerpt + index updated
  | commit (id : String) (e : E)              -- edit + Commit through the loaded instance (entityUpdated)
  | merged (id : String) (e : E)              -- MergeAll reports new/updated with entity e (the ref already moved)
  | mergedNothing                             -- nothing / invalid: no change
  | remove (id : String)
  | evict (id : String)
  | resolve (id : String)
  | reopen                                    -- Close, then NewRepoCache: Load, else rebuild

def count {E : Type} (m : Map E) (ids : List String) : Nat := (ids.eraseDups.filter (fun i => (m i).isSome)).length

/-- `Build`: everything derived from git again -/
def rebuild {E : Type} (repo : Map E) (ids : List String) : St E :=
  { repo := repo, excerpts := repo, index := repo, loaded := repo, ids := ids }

def step {E : Type} (s : St E) : Act E → St E
  | .new id e => { s with repo := upd s.repo id (some e), excerpts := upd s.excerpts id (some e),
                          index := upd s.index id (some e), loaded := upd s.loaded id (some e), ids := id :: s.ids }
  | .commit id e => { s with repo := upd s.repo id (some e), excerpts := upd s.excerpts id (some e),
                             index := upd s.index id (some e), loaded := upd s.loaded id (some e) }
  | .merged id e => { s with repo := upd s.repo id (some e), excerpts := upd s.excerpts id (some e),
                             index := upd s.index id (some e), loaded := upd s.loaded id (some e), ids := id :: s.ids }
  | .mergedNothing => s
  | .remove id => { s with repo := upd s.repo id none, excerpts := upd s.excerpts id none,
                           index := upd s.index id none, loaded := upd s.loaded id none }
  | .evict id => { s with loaded := upd s.loaded id none }
  | .resolve id => { s with loaded := upd s.loaded id (s.repo id) }
  | .reopen =>
    -- Load keeps the excerpt file and the index when their sizes agree, else everything is rebuilt
    if count s.index s.ids = count s.excerpts s.ids then { s with loaded := fun _ => none }
    else rebuild s.repo s.ids

/-- the defective interception of merge results on the pinned tree: no index update -/
def stepMergedNoIndex {E : Type} (s : St E) (id : String) (e : E) : St E :=
  { s with repo := upd s.repo id (some e), excerpts := upd s.excerpts id (some e), loaded := upd s.loaded id (some e), ids := id :: s.ids }

/-- what the cache serves: listing excerpts, search/index content, and resolved state (a loaded
instance, else what is read from git) -/
structure Served (E : Type) where
  excerpts : Map E
  index : Map E
  resolved : Map E

def served {E : Type} (s : St E) : Served E :=
  { excerpts := s.excerpts, index := s.index, resolved := fun id => match s.loaded id with | some e => some e | none => s.repo id }

end GitBugModel.Cache

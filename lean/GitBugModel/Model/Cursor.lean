/-
Model of `api/graphql/connections/connections.go`: `OffsetToCursor`
(`base64.StdEncoding.EncodeToString([]byte(fmt.Sprintf("%v%v", cursorPrefix, offset)))`)
— `CursorToOffset` is not used by the connection code (cursors are compared as strings)
and is not modelled.  Core Lean only.

Bytes are natural numbers below 256; the text encoded is ASCII (the prefix and decimal digits),
so its bytes are its characters' code points.  The base-64 encoder is the standard one with
padding: three bytes give four symbols (`val>>18&0x3F`, `val>>12&0x3F`, `val>>6&0x3F`, `val&0x3F`),
a rest of one or two bytes gives two or three symbols and `=` padding.
-/
namespace GitBugModel.Cursor

def alphabet : List Char :=
  "ABCDEFGHIJKLMNOPQRSTUVWXYZabcdefghijklmnopqrstuvwxyz0123456789+/".toList

theorem alphabet_length : alphabet.length = 64 := by decide

/-- `enc.encode[v & 0x3F]` -/
def sym (v : Nat) : Char := alphabet[v % 64]'(by rw [alphabet_length]; exact Nat.mod_lt _ (by decide))

def pad : Char := '='

def b64 : List Nat → List Char
  | [] => []
  | [a] => [sym (a / 4), sym ((a % 4) * 16), pad, pad]
  | [a, b] => [sym (a / 4), sym ((a % 4) * 16 + b / 16), sym ((b % 16) * 4), pad]
  | a :: b :: c :: rest =>
    sym (a / 4) :: sym ((a % 4) * 16 + b / 16) :: sym ((b % 16) * 4 + c / 64) :: sym (c % 64) :: b64 rest

def cursorPrefix : String := "cursor:"

/-- the text that is encoded -/
def cursorText (offset : Nat) : String := cursorPrefix ++ toString offset

/-- `connections.OffsetToCursor` (offsets are never negative in the callers: a slice index) -/
def offsetToCursor (offset : Nat) : String :=
  String.ofList (b64 ((cursorText offset).toList.map Char.toNat))

end GitBugModel.Cursor

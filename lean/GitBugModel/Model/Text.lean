/-!
Model of `util/text` (validate.go, transform.go): which characters make a text unsafe, and the
clean-up applied to texts that come from outside (API arguments, bridges).

`unicode.IsControl` is the category Cc: U+0000..U+001F and U+007F..U+009F.  `unicode.IsSpace` is
the White_Space property as listed in Go's `unicode/graphic.go`.
-/
namespace GitBugModel.Text

/-- `unicode.IsControl` -/
def isControl (c : Char) : Bool := c.toNat < 32 || (127 ≤ c.toNat && c.toNat < 160)

/-- `unicode.IsSpace` -/
def isSpace (c : Char) : Bool :=
  let n := c.toNat
  (9 ≤ n && n ≤ 13) || n == 32 || n == 0x85 || n == 0xA0 || n == 0x1680 || (0x2000 ≤ n && n ≤ 0x200A) ||
  n == 0x2028 || n == 0x2029 || n == 0x202F || n == 0x205F || n == 0x3000

/-- the three control characters a multi-line text may hold -/
def isLayout (c : Char) : Bool := c == '\t' || c == '\r' || c == '\n'

/-- `text.Safe` -/
def safe (s : List Char) : Bool := s.all (fun c => isLayout c || !isControl c)

/-- `text.SafeOneLine` -/
def safeOneLine (s : List Char) : Bool := s.all (fun c => !isControl c)

/-- `strings.TrimSpace` -/
def trimSpace (s : List Char) : List Char := ((s.dropWhile isSpace).reverse.dropWhile isSpace).reverse

/-- `strings.Replace(text, "\r\n", "\n", -1)` -/
def dropCRLF : List Char → List Char
  | '\r' :: '\n' :: rest => '\n' :: dropCRLF rest
  | c :: rest => c :: dropCRLF rest
  | [] => []

/-- `text.Cleanup` -/
def cleanup (s : List Char) : List Char :=
  trimSpace ((dropCRLF s).filter (fun c => isLayout c || !isControl c))

/-- `text.CleanupOneLine` -/
def cleanupOneLine (s : List Char) : List Char := trimSpace (s.filter (fun c => !isControl c))

end GitBugModel.Text

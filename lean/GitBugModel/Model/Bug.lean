/-
Model of `entities/bug`: operations, `Apply`, `Bug.Compile`, and of the incremental
snapshot maintenance of `cache/with_snapshot.go`.  Core Lean only.

Identifiers (operation ids, identity ids) are strings supplied by the environment (they are
SHA-256 hashes in the implementation).  The interleaving of a bug id and an operation id
into a combined id is a parameter `comb` (instantiated with `Ids.combine` by the driver), so
the theorems hold for every such function.
-/
namespace GitBugModel.Bug

/-- `dag.OpBase` as far as the semantics can see it. -/
structure Base where
  id : String
  author : String
  time : Int
  md : List (String × String) := []
  nonce : String := ""        -- base64 text of the random bytes (no semantic role)
deriving Repr, DecidableEq, Inhabited

/-- The eight operation kinds of `entities/bug/operation.go` (iota 1..8 in that order). -/
inductive Op where
  | create (b : Base) (title message : String) (files : List String)
  | setTitle (b : Base) (title was : String)
  | addComment (b : Base) (message : String) (files : List String)
  | setStatus (b : Base) (status : Nat)
  | labelChange (b : Base) (added removed : List String)
  | editComment (b : Base) (target : String) (message : String) (files : List String)
  | noop (b : Base)
  | setMetadata (b : Base) (target : String) (newMeta : List (String × String))
deriving Repr, DecidableEq, Inhabited

def Op.base : Op → Base
  | .create b .. | .setTitle b .. | .addComment b .. | .setStatus b .. | .labelChange b ..
  | .editComment b .. | .noop b | .setMetadata b .. => b

def Op.typeNum : Op → Nat
  | .create .. => 1 | .setTitle .. => 2 | .addComment .. => 3 | .setStatus .. => 4
  | .labelChange .. => 5 | .editComment .. => 6 | .noop .. => 7 | .setMetadata .. => 8

/-- An operation as held in memory: with the extra metadata compiled onto it. -/
structure SOp where
  op : Op
  extra : List (String × String) := []
deriving Repr, DecidableEq, Inhabited

structure Comment where
  combinedId : String
  targetId : String
  author : String
  message : String
  files : List String
  time : Int
deriving Repr, DecidableEq

/-- `CommentTimelineItem`; a history step is (message, time) — the Go code never fills the
step's author. -/
structure CItem where
  combinedId : String
  author : String
  message : String
  files : List String
  createdAt : Int
  lastEdit : Int
  history : List (String × Int)
deriving Repr, DecidableEq

inductive TItem where
  | create (c : CItem)
  | addComment (c : CItem)
  | labelChange (cid author : String) (time : Int) (added removed : List String)
  | setStatus (cid author : String) (time : Int) (status : Nat)
  | setTitle (cid author : String) (time : Int) (title was : String)
deriving Repr, DecidableEq

def TItem.combinedId : TItem → String
  | .create c | .addComment c => c.combinedId
  | .labelChange cid .. | .setStatus cid .. | .setTitle cid .. => cid

structure Snapshot where
  id : String
  status : Nat := 1          -- common.OpenStatus
  title : String := ""
  comments : List Comment := []
  labels : List String := []
  author : String := ""
  actors : List String := []
  participants : List String := []
  createTime : Int := 0
  timeline : List TItem := []
  ops : List SOp := []
deriving Repr, DecidableEq

def addOnce (l : List String) (x : String) : List String := if l.contains x then l else l ++ [x]

/-- structural insertion sort (the Go code uses `sort.Slice` with the same comparator) -/
def insertSorted (x : String) : List String → List String
  | [] => [x]
  | y :: ys => if x < y then x :: y :: ys else y :: insertSorted x ys

def sortLabels (l : List String) : List String := l.foldr insertSorted []

def newCItem (c : Comment) : CItem :=
  { combinedId := c.combinedId, author := c.author, message := c.message, files := c.files,
    createdAt := c.time, lastEdit := c.time, history := [(c.message, c.time)] }

def CItem.append (c : CItem) (message : String) (files : List String) (time : Int) : CItem :=
  { c with message := message, files := files, lastEdit := time, history := c.history ++ [(message, time)] }

/-- `setExtraMetadataImmutable`: first writer wins. -/
def setExtra (extra : List (String × String)) (k v : String) : List (String × String) :=
  if extra.any (fun p => p.1 == k) then extra else extra ++ [(k, v)]

/-- `SetMetadataOperation.Apply`: the first operation with the target id receives the keys. -/
def applySetMetadata (ops : List SOp) (target : String) (newMeta : List (String × String)) : List SOp :=
  match ops with
  | [] => []
  | o :: rest =>
    if o.op.base.id == target then
      { o with extra := newMeta.foldl (fun e p => setExtra e p.1 p.2) o.extra } :: rest
    else o :: applySetMetadata rest target newMeta

/-- In the timeline, the first item whose combined id is `cid` (the `for … break` loop). -/
def findItem (tl : List TItem) (cid : String) : Option TItem := tl.find? (fun it => it.combinedId == cid)

/-- Replace the first timeline item with combined id `cid` by its edited version. -/
def editTimeline (tl : List TItem) (cid message : String) (files : List String) (time : Int) : List TItem :=
  match tl with
  | [] => []
  | it :: rest =>
    if it.combinedId == cid then
      (match it with
       | .create c => .create (c.append message files time)
       | .addComment c => .addComment (c.append message files time)
       | other => other) :: rest
    else it :: editTimeline rest cid message files time

/-- Update the first comment with combined id `cid`. -/
def editComments (cs : List Comment) (cid message : String) (files : List String) : List Comment :=
  match cs with
  | [] => []
  | c :: rest =>
    if c.combinedId == cid then { c with message := message, files := files } :: rest
    else c :: editComments rest cid message files

/-- `snapshot.SearchComment(combinedId)` succeeds and the comment's `targetId` differs from the
edit's target. -/
def targetMismatch (cs : List Comment) (cid target : String) : Bool :=
  match cs.find? (fun c => c.combinedId == cid) with
  | some c => c.targetId != target
  | none => false

/-- `op.Apply(snapshot)` for every operation kind. -/
def apply (comb : String → String → String) (s : Snapshot) (o : Op) : Snapshot :=
  match o with
  | .create b title message files =>
    if s.id != "" && s.id != "unset" && s.id != b.id then s
    else
      let c : Comment := { combinedId := comb b.id b.id, targetId := b.id, author := b.author,
                           message := message, files := files, time := b.time }
      { s with id := b.id
               actors := addOnce s.actors b.author
               participants := addOnce s.participants b.author
               title := title
               comments := [c]
               author := b.author
               createTime := b.time
               timeline := [.create (newCItem c)] }
  | .addComment b message files =>
    let c : Comment := { combinedId := comb s.id b.id, targetId := b.id, author := b.author,
                         message := message, files := files, time := b.time }
    { s with actors := addOnce s.actors b.author
             participants := addOnce s.participants b.author
             comments := s.comments ++ [c]
             timeline := s.timeline ++ [.addComment (newCItem c)] }
  | .editComment b target message files =>
    let cid := comb s.id target
    match findItem s.timeline cid with
    | none => s
    | some (.create _) | some (.addComment _) =>
      -- the combined id keeps only 14 characters of the target: the matched comment must
      -- have been created by exactly the targeted operation (`SearchComment` + `targetId`)
      if targetMismatch s.comments cid target then s else
      { s with timeline := editTimeline s.timeline cid message files b.time
               actors := addOnce s.actors b.author
               comments := editComments s.comments cid message files }
    | some _ => s
  | .setTitle b title was =>
    { s with title := title
             actors := addOnce s.actors b.author
             timeline := s.timeline ++ [.setTitle (comb s.id b.id) b.author b.time title was] }
  | .setStatus b status =>
    { s with status := status
             actors := addOnce s.actors b.author
             timeline := s.timeline ++ [.setStatus (comb s.id b.id) b.author b.time status] }
  | .labelChange b added removed =>
    let afterAdd := added.foldl addOnce s.labels
    let afterRemove := afterAdd.filter (fun l => !removed.contains l)
    { s with actors := addOnce s.actors b.author
             labels := sortLabels afterRemove
             timeline := s.timeline ++ [.labelChange (comb s.id b.id) b.author b.time added removed] }
  | .noop _ => s
  | .setMetadata _ target newMeta => { s with ops := applySetMetadata s.ops target newMeta }

/-- One iteration of `Bug.Compile`'s loop, also what `withSnapshot.Append` does:
`op.Apply(snap); snap.Operations = append(snap.Operations, op)`. -/
def step (comb : String → String → String) (s : Snapshot) (o : SOp) : Snapshot :=
  let s' := apply comb s o.op
  { s' with ops := s'.ops ++ [o] }

def firstId (ops : List SOp) : String :=
  match ops with
  | [] => ""
  | o :: _ => o.op.base.id

/-- `Bug.Compile`. -/
def compile (comb : String → String → String) (ops : List SOp) : Snapshot :=
  ops.foldl (step comb) { id := firstId ops }

/-- `OpBase.GetMetadata`: the operation's own metadata wins over extra metadata. -/
def getMetadata (o : SOp) (k : String) : Option String :=
  match o.op.base.md.find? (fun p => p.1 == k) with
  | some p => some p.2
  | none => (o.extra.find? (fun p => p.1 == k)).map (·.2)

/-- A bug is valid (`Bug.Validate`, structure part) when it starts with a create operation
and has no other. -/
def validSeq : List Op → Bool
  | .create .. :: rest => rest.all (fun o => o.typeNum != 1)
  | _ => false

end GitBugModel.Bug

/-! The loaded-instance bookkeeping of `cache/subcache.go`: the `cached` map with its LRU list
(`lruIdCache`, hashicorp's list: `Add` and `Get` make a key the newest), `maxLoaded`, and
`evictIfNeeded`:

    if lru.Len() <= maxLoaded { return }
    for _, id := range lru.GetOldestToNewest() {
        if cached[id].NeedCommit() { continue }      -- an instance with staged operations stays
        lru.Remove(id); delete(cached, id)
        if lru.Len() <= maxLoaded { return }
    }

A session is a list of calls (`Resolve`, `New`, an edit, `Commit`, `SetCacheSize`, `Remove`); the
model says after each call which ids are loaded, in which order the next eviction looks at them,
and whether the instance a caller got is still the loaded one. -/
namespace GitBugModel.Lru

/-- `lru.Add`: the key becomes the newest (an existing key is moved) -/
def add (l : List String) (id : String) : List String := l.filter (· != id) ++ [id]

/-- `lru.Get`: a present key becomes the newest, an absent one is not added -/
def touch (l : List String) (id : String) : List String := if id ∈ l then add l id else l

/-- the loop of `evictIfNeeded` over the keys oldest first, `n` entries still to drop -/
def evictLoop (dirty : String → Bool) : Nat → List String → List String
  | 0, l => l
  | _ + 1, [] => []
  | n + 1, id :: rest => if dirty id then id :: evictLoop dirty (n + 1) rest else evictLoop dirty n rest

def evictIfNeeded (max : Nat) (dirty : String → Bool) (l : List String) : List String :=
  evictLoop dirty (l.length - max) l

structure St where
  max : Nat
  lru : List String      -- the loaded ids, oldest first
  dirty : List String    -- ids whose loaded instance holds staged operations
  held : List String     -- ids whose loaded instance is the one the caller last received
  deriving Repr, DecidableEq

def St.isDirty (s : St) (id : String) : Bool := s.dirty.contains id

/-- after any change of the loaded set: handles of instances that are gone are stale -/
def St.settle (s : St) : St :=
  { s with held := s.held.filter (s.lru.contains ·) }

def St.evict (s : St) : St := { s with lru := evictIfNeeded s.max s.isDirty s.lru }.settle

/-- `Resolve id` (the id exists in git): a hit makes it the newest; a miss loads it, makes it the
newest and evicts. Output: the caller got the very instance it held already. -/
def resolve (s : St) (id : String) : St × Bool :=
  if id ∈ s.lru then
    ({ s with lru := touch s.lru id, held := if id ∈ s.held then s.held else id :: s.held }, decide (id ∈ s.held))
  else
    ({ s with lru := add s.lru id, held := id :: s.held }.evict, false)

inductive Call where
  | resolve (id : String)
  | new (id : String)         -- `New`: add, entityUpdated (the excerpt is written), then evict
  | edit (id : String)        -- Resolve twice; when both return one instance: an edit left staged
  | commit (id : String)      -- Resolve twice; when both return one instance and it needs a commit: Commit
  | setSize (n : Nat)
  | remove (id : String)      -- Remove: ResolvePrefix, then the instance and the key are dropped
  deriving Repr

/-- what a call shows: for each `Resolve` inside it whether the same instance came back, and whether
the call went through -/
structure Out where
  same : List Bool
  ok : Bool
  deriving Repr, DecidableEq

def step (s : St) : Call → St × Out
  | .resolve id => let (s', b) := resolve s id; (s', ⟨[b], true⟩)
  | .new id => ({ s with lru := add s.lru id, held := id :: s.held.filter (· != id) }.evict, ⟨[], true⟩)
  | .edit id =>
    let (s1, b1) := resolve s id
    let (s2, b2) := resolve s1 id
    if b2 then ({ s2 with dirty := if id ∈ s2.dirty then s2.dirty else id :: s2.dirty, lru := touch s2.lru id }, ⟨[b1, b2], true⟩)
    else (s2, ⟨[b1, b2], false⟩)
  | .commit id =>
    let (s1, b1) := resolve s id
    let (s2, b2) := resolve s1 id
    if b2 && s2.isDirty id then ({ s2 with dirty := s2.dirty.filter (· != id), lru := touch s2.lru id }, ⟨[b1, b2], true⟩)
    else (s2, ⟨[b1, b2], false⟩)
  | .setSize n => ({ s with max := n }.evict, ⟨[], true⟩)
  | .remove id =>
    let (s1, _) := resolve s id
    ({ s1 with lru := s1.lru.filter (· != id), dirty := s1.dirty.filter (· != id) }.settle, ⟨[], true⟩)

/-- `New` of the pinned tree: add, evict, then entityUpdated — which fails when the new instance is
gone already, after the bug was stored in git -/
def newPinned (s : St) (id : String) : St × Out :=
  let s1 := { s with lru := add s.lru id, held := id :: s.held.filter (· != id) }.evict
  if id ∈ s1.lru then ({ s1 with lru := touch s1.lru id }, ⟨[], true⟩) else (s1, ⟨[], false⟩)

def run (s : St) : List Call → St × List Out
  | [] => (s, [])
  | c :: cs => let (s1, o) := step s c; let (s2, os) := run s1 cs; (s2, o :: os)

def init (max : Nat) : St := ⟨max, [], [], []⟩

end GitBugModel.Lru

/-
Model of `GoGitRepo.StoreTree` (`repository/gogit.go`): git's tree order and the entry names
git-bug uses.  Core Lean only.
-/
namespace GitBugModel.GitTree

structure Entry where
  name : String
  isTree : Bool
  hash : String := ""
deriving DecidableEq, Repr

/-- git compares tree entries by name, a directory as if its name ended in "/" -/
def key (e : Entry) : String := if e.isTree then e.name ++ "/" else e.name

def insertE (x : Entry) : List Entry → List Entry
  | [] => [x]
  | y :: ys => if key x < key y then x :: y :: ys else y :: insertE x ys

/-- the `sort.Slice` of `StoreTree` -/
def sortTree (l : List Entry) : List Entry := l.foldr insertE []

/-- what `git fsck` wants of one entry name -/
def nameOk (n : String) : Bool :=
  n != "" && !n.toList.contains '/' && !n.toList.contains (Char.ofNat 0) && n != "." && n != ".." && n != ".git"

/-- what `git fsck --strict` wants of a tree: legal names, strictly increasing keys (sorted, no
duplicate) -/
def strictlySorted : List Entry → Bool
  | [] => true
  | [_] => true
  | a :: b :: rest => decide (key a < key b) && strictlySorted (b :: rest)

/-- no two entries share a name (a file and a directory of the same name are a duplicate too) -/
def distinct : List String → Bool
  | [] => true
  | a :: t => !t.contains a && distinct t

def namesDistinct (l : List Entry) : Bool := distinct (l.map (·.name))

def fsckTreeOk (l : List Entry) : Bool := l.all (fun e => nameOk e.name) && strictlySorted l && namesDistinct l

/-! the entries of a pack tree (`operationPack.Write`) and of its `extra` tree -/

def packEntries (version edit create : Nat) (hasFiles : Bool) : List Entry :=
  [{ name := "version-" ++ toString version, isTree := false },
   { name := "ops", isTree := false },
   { name := "edit-clock-" ++ toString edit, isTree := false }] ++
  (if create > 0 then [{ name := "create-clock-" ++ toString create, isTree := false }] else []) ++
  (if hasFiles then [{ name := "extra", isTree := true }] else [])

def extraEntries (n : Nat) : List Entry :=
  (List.range n).map (fun i => { name := "file" ++ toString i, isTree := false })

end GitBugModel.GitTree

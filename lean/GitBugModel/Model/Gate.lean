/-
Model of the effect structure of the GraphQL mutation resolvers
(`api/graphql/resolvers/mutation.go`) and of the upload endpoint
(`api/http/git_file_upload_handler.go`): a resolver is a straight-line program of calls, each of
which may fail (the resolver then returns the error at once); `auth.UserFromCtx` is the gate.
Core Lean only.
-/
namespace GitBugModel.Gate

inductive Step where
  | read (name : String)      -- looks something up; changes nothing
  | gate                      -- auth.UserFromCtx: fails when no user is attached to the request
  | mutate (name : String)    -- may change the repository or the cache
deriving DecidableEq, Repr

inductive Outcome where
  | done | refused | failed
deriving DecidableEq, Repr

/-- Run a program. `user`: is a user attached?  `fails i`: does the i-th call return an error
(any subset of calls may fail: I/O, unknown prefix, invalid argument …)?  The state is the list of
mutations performed. -/
def run (user : Bool) (fails : Nat → Bool) : (p : List Step) → (i : Nat) → (σ : List String) → Outcome × List String
  | [], _, σ => (.done, σ)
  | s :: rest, i, σ =>
    match s with
    | .gate => if !user then (.refused, σ) else if fails i then (.failed, σ) else run user fails rest (i + 1) σ
    | .read _ => if fails i then (.failed, σ) else run user fails rest (i + 1) σ
    | .mutate n => if fails i then (.failed, σ) else run user fails rest (i + 1) (σ ++ [n])

/-- a program is gated when no mutation comes before its first gate, and it has a gate if it
mutates at all -/
def gated : List Step → Bool
  | [] => true
  | .gate :: _ => true
  | .read _ :: rest => gated rest
  | .mutate _ :: _ => false

end GitBugModel.Gate

/-
Model of the effect structure of the GraphQL mutation resolvers
(`api/graphql/resolvers/mutation.go`) and of the upload endpoint
(`api/http/git_file_upload_handler.go`): a resolver is a straight-line program of calls, each of
which may fail (the resolver then returns the error at once); `auth.UserFromCtx` is the gate.
Core Lean only.
-/
namespace GitBugModel.Gate

inductive Step where
  | read (name : String)      -- looks something up; changes nothing
  | gate                      -- auth.UserFromCtx: fails when no user is attached to the request
  | mutate (name : String)    -- may change the repository or the cache
deriving DecidableEq, Repr

inductive Outcome where
  | done | refused | failed
deriving DecidableEq, Repr

/-- Run a program. `user`: is a user attached?  `fails i`: does the i-th call return an error
(any subset of calls may fail: I/O, unknown prefix, invalid argument …)?  The state is the list of
mutations performed. -/
def run (user : Bool) (fails : Nat → Bool) : (p : List Step) → (i : Nat) → (σ : List String) → Outcome × List String
  | [], _, σ => (.done, σ)
  | s :: rest, i, σ =>
    match s with
    | .gate => if !user then (.refused, σ) else if fails i then (.failed, σ) else run user fails rest (i + 1) σ
    | .read _ => if fails i then (.failed, σ) else run user fails rest (i + 1) σ
    | .mutate n => if fails i then (.failed, σ) else run user fails rest (i + 1) (σ ++ [n])

/-- a program is gated when no mutation comes before its first gate, and it has a gate if it
mutates at all -/
def gated : List Step → Bool
  | [] => true
  | .gate :: _ => true
  | .read _ :: rest => gated rest
  | .mutate _ :: _ => false

/-! ### recording: staged operations and the commit

`…Raw` calls of a bug append an operation to the bug's staging area; `Commit` writes the staging
area to git; `NewRaw` creates and commits a bug in one call; `StoreData` writes a blob at once. -/

/-- is this mutating call one that writes to git by itself? -/
def selfCommitting (n : String) : Bool := n == "NewRaw" || n == "StoreData"

structure Rec where
  staged : List String := []
  stored : List String := []
deriving DecidableEq, Repr

def recStep (σ : Rec) (n : String) : Rec :=
  if n == "Commit" then { staged := [], stored := σ.stored ++ σ.staged }
  else if selfCommitting n then { σ with stored := σ.stored ++ [n] }
  else { σ with staged := σ.staged ++ [n] }

/-- the effect of the mutating calls of a program that runs to its end -/
def record (muts : List String) (σ : Rec) : Rec := muts.foldl recStep σ

/-- every staged operation is followed by a `Commit`: scanning from the end, a `Commit` is met
before any staging call -/
def commitsLast : List String → Bool
  | [] => true
  | n :: rest =>
    if n == "Commit" then commitsLast rest
    else if selfCommitting n then commitsLast rest
    else rest.contains "Commit" && commitsLast rest

def requested (muts : List String) : List String := muts.filter (fun n => n != "Commit")

end GitBugModel.Gate

/-
Model of the cache lock: `cache/repo_cache.go` (`lock`, `repoIsAvailable`, `Close`) and
`util/process/process.go` (`IsRunning`), at the granularity of the file operations, plus the
command layer of `commands/execenv/loading.go`.  Core Lean only.

Processes are numbered; the lock file holds a process number or is absent.
-/
namespace GitBugModel.LockFile

/-- where a process stands -/
inductive PC where
  | idle                     -- not started, or finished (closed or refused)
  | sawNone                  -- `Open(lockfile)`: does not exist; next: create
  | sawStale (p : Nat)       -- read pid `p`, `IsRunning p = false`; next: remove
  | removed                  -- removed the stale file; next: create
  | holding                  -- `lock()` returned nil
  | dead                     -- killed
deriving DecidableEq, Repr

structure St where
  file : Option Nat          -- content of the lock file
  pcs : List PC              -- one per process
deriving DecidableEq, Repr

def pcOf (s : St) (i : Nat) : PC := s.pcs.getD i .idle
def setPc (s : St) (i : Nat) (pc : PC) : St := { s with pcs := s.pcs.set i pc }
def setFile (s : St) (f : Option Nat) : St := { s with file := f }
/-- `process.IsRunning` -/
def alive (s : St) (p : Nat) : Bool := p < s.pcs.length && pcOf s p != .dead

inductive Out where
  | none | refused (holder : Nat) | acquired | released | excl
deriving DecidableEq, Repr

/-- creation of the lock file: `excl = false` is the pinned tree's `Create` (truncates whatever is
there), `excl = true` is `O_EXCL` (fails when the file exists) -/
def create (excl : Bool) (s : St) (i : Nat) : St × Out :=
  if excl && s.file.isSome then (setPc s i .idle, .excl)
  else (setPc (setFile s (some i)) i .holding, .acquired)

/-- one file operation of process `i` -/
def step (excl : Bool) (s : St) (i : Nat) : St × Out :=
  match pcOf s i with
  | .idle =>
    match s.file with
    | none => (setPc s i .sawNone, .none)
    | some p => if alive s p then (s, .refused p) else (setPc s i (.sawStale p), .none)
  | .sawNone => create excl s i
  | .sawStale _ => (setPc (setFile s none) i .removed, .none)      -- `Remove(lockfile)`: whatever is there now
  | .removed => create excl s i
  | .holding => (setPc (setFile s none) i .idle, .released)        -- `Close`: `Remove(lockfile)`
  | .dead => (s, .none)

def kill (s : St) (i : Nat) : St := setPc s i .dead

/-- a whole `lock()` call without anybody else moving in between -/
def openAtomic (excl : Bool) (s : St) (i : Nat) : St × Out :=
  match pcOf s i with
  | .idle =>
    match s.file with
    | none => create excl (setPc s i .sawNone) i
    | some p =>
      if alive s p then (s, .refused p)
      else create excl (setPc (setFile s none) i .removed) i
  | _ => (s, .none)

/-- process-level events -/
inductive Ev where
  | open (i : Nat) | close (i : Nat) | kill (i : Nat)
deriving DecidableEq, Repr

def closeEv (s : St) (i : Nat) : St × Out :=
  if pcOf s i = .holding then (setPc (setFile s none) i .idle, .released) else (s, .none)

def evStep (excl : Bool) (s : St) : Ev → St × Out
  | .open i => openAtomic excl s i
  | .close i => closeEv s i
  | .kill i => (kill s i, .none)

def runEvs (excl : Bool) : St → List Ev → St × List Out
  | s, [] => (s, [])
  | s, e :: es =>
    let (s1, o) := evStep excl s e
    let (s2, os) := runEvs excl s1 es
    (s2, o :: os)

def holders (s : St) : List Nat := (List.range s.pcs.length).filter (fun i => pcOf s i = .holding)

def init (n : Nat) : St := { file := none, pcs := List.replicate n .idle }

/-! ## the command layer -/

/-- pre-run loaders of `commands/execenv/loading.go` -/
inductive Loader where
  | none | loadRepo | loadRepoEnsureUser | loadBackend | loadBackendEnsureUser
deriving DecidableEq, Repr

structure Cmd where
  loader : Loader
  /-- `RunE` is wrapped in `execenv.CloseBackend`, or closes the backend itself on every path -/
  closes : Bool
deriving DecidableEq, Repr

/-- what happens to one run of a command -/
structure Fate where
  lockFails : Bool      -- another live process holds the lock
  buildFails : Bool     -- the cache build reports an error after the lock was taken
  userFails : Bool      -- no user identity is configured
  runFails : Bool       -- the command's own work fails
deriving DecidableEq, Repr

/-- `releaseOnLoadFailure`: do the loaders close the backend when they fail after taking the lock
(false on the pinned tree)?  Result: is our lock still on disk when the process exits? -/
def lockLeftAtExit (releaseOnLoadFailure : Bool) (c : Cmd) (f : Fate) : Bool :=
  match c.loader with
  | .none | .loadRepo | .loadRepoEnsureUser => false
  | .loadBackend =>
    if f.lockFails then false
    else if f.buildFails then !releaseOnLoadFailure
    else !c.closes
  | .loadBackendEnsureUser =>
    if f.lockFails then false
    else if f.buildFails then !releaseOnLoadFailure
    else if f.userFails then !releaseOnLoadFailure
    else !c.closes


/-! ## what the lock file holds

`RepoCache.lock` writes `fmt.Sprintf("%d", os.Getpid())`; `repoIsAvailable` reads at most `limit`
bytes (`io.LimitReader`), refuses the file when it got `refuse` bytes or more, and parses the rest
with `strconv.Atoi`. -/

def renderPid (pid : Nat) : String := toString pid

inductive ReadErr where
  | tooLong
  | notANumber
deriving DecidableEq, Repr

/-- decimal digits, most significant first, continuing from `acc` -/
def digitsAcc (acc : Nat) : List Char → Option Nat
  | [] => some acc
  | c :: r => if c.isDigit then digitsAcc (acc * 10 + (c.toNat - 48)) r else none

/-- `strconv.Atoi` (base 10: an optional sign, then at least one ASCII digit and nothing else; the
overflow of 64 bits is out of reach of a file that short) -/
def atoi (s : List Char) : Option Int :=
  match s with
  | '+' :: r => if r.isEmpty then none else (digitsAcc 0 r).map Int.ofNat
  | '-' :: r => if r.isEmpty then none else (digitsAcc 0 r).map (fun n => -Int.ofNat n)
  | r => if r.isEmpty then none else (digitsAcc 0 r).map Int.ofNat

/-- `len(buf)` counts bytes -/
def utf8Len (l : List Char) : Nat := (l.map Char.utf8Size).sum

def readLock (limit refuse : Nat) (content : String) : Except ReadErr Int :=
  -- (the reader limits bytes; the contents of interest are ASCII, where bytes are characters —
  --  for other text the byte count decides the length test and Atoi refuses it anyway)
  let buf := content.toList.take limit
  if refuse ≤ min limit (utf8Len content.toList) then .error .tooLong
  else match atoi buf with
    | some n => .ok n
    | none => .error .notANumber

end GitBugModel.LockFile

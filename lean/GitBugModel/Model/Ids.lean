/-
Model of `entity/id_interleaved.go` (`CombineIds`, `SeparateIds`), of prefix matching
(`Id.HasPrefix`), of `SubCache.resolveMatcher` (`cache/subcache.go`) and of
`RepoCacheBug.ResolveComment` (`cache/bug_subcache.go`).  Core Lean only.

Ids are lists of characters.  Go indexes the bytes of the string; for the hexadecimal ids
git-bug produces bytes and characters coincide.  `SeparateIds` iterates with
`for i, r := range prefix`, where `i` is the *byte* offset of the rune, so the model's
`separate` advances by the UTF-8 width of each character (`separateIdx` is the width-1
version used in the theorems; they agree on ASCII input).
-/
namespace GitBugModel.Ids

/-- The `case` guard shared by `CombineIds` and `SeparateIds`: position `i` of a combined id
holds a character of the secondary id. -/
def isSecondary (i : Nat) : Bool :=
  i == 1 || i == 3 || i == 5 || i == 9 || (i ≥ 10 && i % 5 == 4)

def idLength : Nat := 64

/-- `CombineIds` loop from position `i`, `fuel` positions left, under mask `m`.
`none` = Go would panic with an index out of range (an id that is too short). -/
def combineFrom (m : Nat → Bool) : (fuel i : Nat) → (p s : List Char) → Option (List Char)
  | 0, _, _, _ => some []
  | fuel+1, i, p, s =>
    if m i then
      match s with
      | [] => none
      | c :: s' => (combineFrom m fuel (i+1) p s').map (c :: ·)
    else
      match p with
      | [] => none
      | c :: p' => (combineFrom m fuel (i+1) p' s).map (c :: ·)

def combine (p s : List Char) : Option (List Char) := combineFrom isSecondary idLength 0 p s

/-- `SeparateIds` with an explicit width function (byte offset advances by `w c`). -/
def separateFrom (m : Nat → Bool) (w : Char → Nat) : (i : Nat) → List Char → List Char × List Char
  | _, [] => ([], [])
  | i, c :: cs =>
    let r := separateFrom m w (i + w c) cs
    if m i then (r.1, c :: r.2) else (c :: r.1, r.2)

/-- what the Go code does -/
def separate (l : List Char) : List Char × List Char := separateFrom isSecondary Char.utf8Size 0 l
/-- index = position (valid for ASCII input) -/
def separateIdx (l : List Char) : List Char × List Char := separateFrom isSecondary (fun _ => 1) 0 l

/-- number of positions `j` with `i ≤ j < i + n` and `m j = b` -/
def countMask (m : Nat → Bool) (b : Bool) : (n i : Nat) → Nat
  | 0, _ => 0
  | n+1, i => (if m i == b then 1 else 0) + countMask m b n (i+1)

/-! ## prefix resolution -/

def hasPrefix (pre l : List Char) : Bool := pre.isPrefixOf l

inductive Res (α : Type) where
  | found (x : α)
  | multiple (xs : List α)
  | notFound
deriving Repr, DecidableEq

/-- `SubCache.resolveMatcher` with `excerpt.Id().HasPrefix(prefix)`; `ids` is the key set of
the excerpt map in the enumeration order of this call. -/
def resolve (ids : List (List Char)) (pre : List Char) : Res (List Char) :=
  match ids.filter (hasPrefix pre) with
  | [] => .notFound
  | [x] => .found x
  | xs => .multiple xs

structure BugC where
  id : List Char
  comments : List (List Char)   -- combined ids of the bug's comments, in snapshot order

/-- All (bug id, combined comment id) pairs the double loop of `ResolveComment` appends. -/
def commentMatches (bugs : List BugC) (pre : List Char) : List (List Char × List Char) :=
  let bugPrefix := (separate pre).1
  (bugs.filter (fun b => hasPrefix bugPrefix b.id)).flatMap
    (fun b => (b.comments.filter (hasPrefix pre)).map (fun c => (b.id, c)))

/-- `RepoCacheBug.ResolveComment`. -/
def resolveComment (bugs : List BugC) (pre : List Char) : Res (List Char × List Char) :=
  match commentMatches bugs pre with
  | [] => .notFound
  | [x] => .found x
  | xs => .multiple xs

/-- what `commands/select.Resolve` answers: the entity and the arguments left for the command, the
multiple-match error of the prefix resolution, or "no valid id" (`cleared`: the selection named an
entity that does not exist and has been removed) -/
inductive Sel where
  | entity (id : List Char) (rest : List (List Char))
  | multiple (ids : List (List Char))
  | noValidId (cleared : Bool)
deriving Repr, DecidableEq

/-- the selected entity, when the first argument does not name one -/
def selectFallback (ids : List (List Char)) (selected : Option (List Char)) (args : List (List Char)) : Sel :=
  match selected with
  | none => .noValidId false
  | some s => if s ∈ ids then .entity s args else .noValidId true

/-- `commands/select.Resolve`: the first argument as an id prefix; only when it matches nothing,
the selected entity (and then the argument stays an argument). -/
def selectResolve (ids : List (List Char)) (selected : Option (List Char)) (args : List (List Char)) : Sel :=
  match args with
  | [] => selectFallback ids selected args
  | a :: rest =>
    match resolve ids a with
    | .found x => .entity x rest
    | .multiple xs => .multiple xs
    | .notFound => selectFallback ids selected args

end GitBugModel.Ids

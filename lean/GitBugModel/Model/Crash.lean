import GitBugModel.Model.Dag
/-
Model of the storage mutations a write path issues (`repository.Repo` calls) and of a crash
between two of them.  The unit of atomicity is one call.  Core Lean only.
-/
namespace GitBugModel.Crash
open GitBugModel.Dag

structure RState where
  store : Store                    -- commits (with their decoded packs); blobs and trees live inside
  refs : List (String × String)    -- ref name ↦ commit hash
  clocks : List (String × Nat)     -- persisted clock name ↦ value
deriving Repr

inductive Mut where
  | obj (c : Commit)                 -- StoreCommit (and the StoreData/StoreTree calls before it)
  | aux                              -- StoreData / StoreTree: objects no ref reaches by themselves
  | setRef (name hash : String)      -- UpdateRef
  | clock (name : String) (v : Nat)  -- a clock persisted at value v (Increment / Witness)
deriving Repr

def setAssoc {α} (l : List (String × α)) (k : String) (v : α) : List (String × α) :=
  if l.any (fun x => x.1 == k) then l.map (fun x => if x.1 == k then (k, v) else x) else l ++ [(k, v)]

def applyMut (σ : RState) : Mut → RState
  | .obj c => { σ with store := σ.store ++ [c] }
  | .aux => σ
  | .setRef n h => { σ with refs := setAssoc σ.refs n h }
  | .clock n v => { σ with clocks := setAssoc σ.clocks n v }

def run (σ : RState) (ms : List Mut) : RState := ms.foldl applyMut σ

/-- the state a crash after the first `k` calls leaves on disk -/
def crash (σ : RState) (ms : List Mut) (k : Nat) : RState := run σ (ms.take k)

/-- what a reader sees of one ref: the operations of the entity, or nothing when it is unreadable -/
def viewAt (s : Store) (h : String) : Option (List OpTok) := (read s h).toOption.map (·.ops)

def view (σ : RState) : List (String × Option (List OpTok)) := σ.refs.map (fun r => (r.1, viewAt σ.store r.2))

def isObjLike : Mut → Bool
  | .setRef _ _ => false
  | _ => true

/-- the discipline of the write paths: any number of object and clock writes, then one ref update -/
def disciplined (ms : List Mut) : Bool :=
  match ms.reverse with
  | .setRef _ _ :: rest => rest.all isObjLike
  | _ => false

def clockOf (σ : RState) (n : String) : Nat := ((σ.clocks.find? (fun x => x.1 == n)).map (·.2)).getD 0

end GitBugModel.Crash

-- Root of the `GitBugModel` library: model, generated facts, property theorems.
import GitBugModel.Model.Conn
import GitBugModel.Props.C20
import GitBugModel.Model.Ids
import GitBugModel.Props.C13
import GitBugModel.Model.Bug
import GitBugModel.Props.C10
import GitBugModel.Model.Dag
import GitBugModel.Lemmas.PackSort
import GitBugModel.Props.C03
import GitBugModel.Props.C01
import GitBugModel.Props.C02
import GitBugModel.Model.Lamport
import GitBugModel.Props.C05
import GitBugModel.Model.Identity
import GitBugModel.Props.C09
import GitBugModel.Model.Query
import GitBugModel.Props.C12
